"""Concrete replay of a solver counterexample against the REAL code (real numpy, real dsw taken from
PYTHONPATH), with independent concrete oracles.  Run by /venv/bin/python; reads a JSON object
{"kind": ..., "payload": {...}} on stdin (or --file path) and prints one JSON line
{"violated": bool, "detail": str}.  `violated` is True only if the property is really broken on
this concrete input."""
import json
import signal
import sys

import numpy as np

NUC = "ACGT"


class Timeout(Exception):
    pass


def _alarm(*a):
    raise Timeout("wall-clock limit")


def succ(v, j, k):
    return (v * 4 + j) % (4 ** k)


def kmer(v, k):
    return "".join(NUC[(v // 4 ** (k - 1 - i)) % 4] for i in range(k))


def is_walk(acc, start, s):
    v = start
    for c in s:
        if c not in NUC:
            return False
        j = NUC.index(c)
        if acc[v][j] < 0:
            return False
        v = int(acc[v][j])
    return True


def walk_vertices(acc, start, s):
    v, out = start, [start]
    for c in s:
        v = int(acc[v][NUC.index(c)])
        out.append(v)
    return out


def vt_ref(s, n):
    vals = [NUC.index(c) for c in s]
    flag = sum(vals) % 4
    asc = sum(i for i in range(len(vals) - 1) if vals[i] < vals[i + 1])
    out = NUC[flag]
    if n > 1:
        val = asc % (4 ** (n - 1))
        out += "".join(NUC[(val // 4 ** (n - 2 - i)) % 4] for i in range(n - 1))
    return out


def ref_encode(acc, start, bits, fast, table):
    """independent integer reference coder; returns strand or None when a dead end / out-degree 3 in
    fast mode makes the property's precondition false."""
    v = start
    out = ""

    def pick(v, d):
        live = [j for j in range(4) if acc[v][j] >= 0]
        if table is not None:
            live = sorted(live, key=lambda j: table[v][j])
        return live[d]
    guard = 0
    if not fast:
        q = 0
        for b in bits:
            q = q * 2 + b
        while q != 0:
            live = [j for j in range(4) if acc[v][j] >= 0]
            r = len(live)
            if r == 0:
                return None
            if r == 1:
                j = live[0]
            else:
                j = pick(v, q % r)
                q //= r
            out += NUC[j]
            v = int(acc[v][j])
            guard += 1
            if guard > 10000:
                return None
    else:
        loc, L = 0, len(bits)
        while loc < L:
            live = [j for j in range(4) if acc[v][j] >= 0]
            r = len(live)
            if r == 0 or r == 3:
                return None
            if r == 4:
                d = bits[loc] * 2 + (bits[loc + 1] if loc + 1 < L else 0)
                loc += 2
                j = pick(v, d)
            elif r == 2:
                j = pick(v, bits[loc])
                loc += 1
            else:
                j = live[0]
            out += NUC[j]
            v = int(acc[v][j])
            guard += 1
            if guard > 10000:
                return None
    return out


def call(f, *a, **k):
    """(result, exception-type-name or None)"""
    try:
        return f(*a, **k), None
    except Timeout:
        raise
    except Exception as e:  # noqa
        return None, type(e).__name__ + ": " + str(e)[:120]


# ------------------------------------------------------------------------------------------ kinds
def k_coding(p):
    """C01/C05/C04/C02-L3/C18b style: encode (+decode) on a concrete graph/message."""
    import dsw
    acc = np.array(p["acc"], dtype=int)
    bits = np.array(p["bits"], dtype=int)
    start = int(p["start"])
    fast = bool(p.get("fast", False))
    vt = int(p.get("vt", 0))
    table = np.array(p["table"], dtype=int) if p.get("table") is not None else None
    want = p.get("check", "roundtrip")
    k = int(round(np.log(len(acc)) / np.log(4)))
    ref = ref_encode(acc, start, [int(b) for b in bits], fast, table)
    r, ex = call(dsw.encode, bits, acc, start, is_faster=fast, vt_length=vt, shuffles=table)
    if ref is None:
        if ex is None and want in ("walk", "all"):
            got = r[0] if vt > 0 else r
            if not is_walk(acc, start, got):
                return True, "encode returned %r which is not a walk from %d (the documented scheme runs into a dead end here)" % (got, start)
        return False, "precondition false (dead end / out-degree 3 in fast mode): encode -> %r %r" % (r, ex)
    if ex is not None:
        return True, "encode raised %s (reference strand %r)" % (ex, ref)
    strand, chk = (r if vt > 0 else (r, None))
    if want in ("reference", "all") and strand != ref:
        return True, "encode gave %r, the documented scheme gives %r" % (strand, ref)
    if want in ("walk", "all") and not is_walk(acc, start, strand):
        return True, "encode gave %r which is not a walk from %d" % (strand, start)
    if vt > 0 and want in ("roundtrip", "all", "vt"):
        if chk != vt_ref(strand, vt):
            return True, "check %r differs from the VT formula %r" % (chk, vt_ref(strand, vt))
    if want in ("roundtrip", "all"):
        d, ex = call(dsw.decode, strand, len(bits), acc, start, is_faster=fast, vt_check=chk, shuffles=table)
        if ex is not None:
            return True, "decode(encode(m)) raised %s (strand %r)" % (ex, strand)
        if [int(x) for x in d] != [int(b) for b in bits]:
            return True, "decode(encode(m)) = %s != m = %s (strand %r)" % ([int(x) for x in d], [int(b) for b in bits], strand)
    if want == "tight":
        viol = tight_violation(acc, start, [int(b) for b in bits], strand, fast)
        if viol:
            return True, viol
    return False, "holds: strand %r" % (strand,)


def tight_violation(acc, start, bits, strand, fast):
    L = len(bits)
    N = len(acc)
    if len(strand) > max(L, 1) * N:
        return "strand of %d nucleotides exceeds L*|V| = %d" % (len(strand), L * N)
    vs = walk_vertices(acc, start, strand)
    degs = [int((np.array(acc[v]) >= 0).sum()) for v in vs[:-1]]
    if strand:
        if degs[-1] < 2:
            return "last nucleotide of %r is emitted at a vertex of out-degree %d" % (strand, degs[-1])
    if not fast:
        val = 0
        for b in bits:
            val = val * 2 + b
        prod = 1
        for d in degs[:-1]:
            prod *= d
        if strand and prod > val:
            return "product of out-degrees before the last step %d exceeds the message value %d" % (prod, val)
    else:
        carried = sum(2 if d == 4 else (1 if d == 2 else 0) for d in degs)
        if carried not in (L, L + 1):
            return "fast mode carried %d bits for a %d-bit message" % (carried, L)
    return None


def k_decode(p):
    """C05 (decode side) / C06: decode of an arbitrary string."""
    import dsw
    acc = np.array(p["acc"], dtype=int)
    s = p["strand"]
    L = int(p["L"])
    start = int(p["start"])
    fast = bool(p.get("fast", False))
    chk = p.get("vt_check")
    table = np.array(p["table"], dtype=int) if p.get("table") is not None else None
    if p.get("warmup"):
        k_ = int(round(np.log(len(acc)) / np.log(4)))
        call(dsw.decode, "AC", 4, dsw.get_complete_accessor(k_), 0, is_faster=fast)
    walk = is_walk(acc, start, s)
    chk_ok = True
    if chk is not None:
        chk_ok = all(c in NUC for c in s) and (chk == vt_ref(s, len(chk)) if len(chk) >= 1 else None)
        if chk_ok is None:
            return False, "empty check string: outside the property"
    r, ex = call(dsw.decode, s, L, acc, start, is_faster=fast, vt_check=chk, shuffles=table)
    # digit value of the walk
    if fast:
        # precondition: no out-degree 3 anywhere (graph-level), walkable prefix carries <= L bits
        degs_all = [(np.array(row) >= 0).sum() for row in acc]
        if any(d == 3 for d in degs_all):
            return False, "fast mode with an out-degree-3 vertex: outside the property"
        v, carried = start, 0
        for c in s:
            if c not in NUC or acc[v][NUC.index(c)] < 0:
                break
            d = int((np.array(acc[v]) >= 0).sum())
            carried += 2 if d == 4 else (1 if d == 2 else 0)
            v = int(acc[v][NUC.index(c)])
        if carried > L:
            return False, "walkable prefix carries %d > %d bits: outside the property" % (carried, L)
    should_accept = walk and chk_ok
    if should_accept:
        if ex is not None:
            return True, "decode raised %s on a walk (check ok)" % ex
        if len(r) != L:
            return True, "decode returned %d bits, %d requested" % (len(r), L)
        if p.get("check_value", True):
            # reference value
            v = start
            digs = []
            for c in s:
                live = [j for j in range(4) if acc[v][j] >= 0]
                if table is not None:
                    live = sorted(live, key=lambda j: table[v][j])
                digs.append((len(live), live.index(NUC.index(c))))
                v = int(acc[v][NUC.index(c)])
            if not fast:
                val = 0
                for r_, d_ in reversed(digs):
                    if r_ > 1:
                        val = val * r_ + d_
                if val < 2 ** L:
                    exp = [(val >> (L - 1 - i)) & 1 for i in range(L)]
                    if [int(x) for x in r] != exp:
                        return True, "decode gave %s, the digit value %d rendered at %d bits is %s" % ([int(x) for x in r], val, L, exp)
            else:
                exp = []
                for r_, d_ in digs:
                    if r_ == 4:
                        exp += [d_ // 2, d_ % 2]
                    elif r_ == 2:
                        exp.append(d_)
                exp = (exp + [0] * L)[:L]
                if [int(x) for x in r] != exp:
                    return True, "fast decode gave %s, expected %s" % ([int(x) for x in r], exp)
        return False, "accepted as it should"
    if ex is None:
        return True, "decode accepted %r (walk=%s, check ok=%s) and returned %s" % (s, walk, chk_ok, [int(x) for x in r])
    if not ex.startswith("ValueError"):
        return True, "decode raised %s instead of ValueError" % ex
    return False, "rejected with ValueError as it should"


KINDS = {"coding": k_coding, "decode": k_decode}


def main():
    if len(sys.argv) > 2 and sys.argv[1] == "--file":
        data = json.load(open(sys.argv[2]))
    else:
        data = json.loads(sys.stdin.read())
    kind, payload = data["kind"], data["payload"]
    signal.signal(signal.SIGALRM, _alarm)
    signal.alarm(int(payload.get("time_limit", 30)))
    try:
        import replay_kinds  # extra kinds live next to this file
        KINDS.update(replay_kinds.KINDS)
    except ImportError:
        pass
    try:
        v, d = KINDS[kind](payload)
    except Timeout:
        v, d = bool(payload.get("timeout_is_violation", False)), "call did not return within the wall-clock limit"
    print(json.dumps({"violated": bool(v), "detail": d}))


if __name__ == "__main__":
    sys.path.insert(0, __file__.rsplit("/", 1)[0])
    main()
