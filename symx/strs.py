"""symx.strs -- symbolic strings (concrete length, symbolic code points) and the lifted
string-literal class K, plus the replacement builtins (len/int/str/type/set) injected into the
loaded repository modules."""
import builtins as _b

import z3

from . import core
from .core import SymInt, SymBool, SymReal, Inconclusive, eng, zint, is_sym

_np = None


def _numpy():
    global _np
    if _np is None:
        import numpy
        _np = numpy
    return _np


def _code_of(ch):
    return z3.IntVal(ord(ch))


def mk(codes):
    """string value from a list of z3 Int code-point terms: K when fully concrete, else SStr."""
    cs = []
    allc = True
    for c in codes:
        c = z3.simplify(c) if not z3.is_int_value(c) else c
        if not z3.is_int_value(c):
            allc = False
        cs.append(c)
    if allc:
        return K("".join(chr(c.as_long()) for c in cs))
    return SStr(cs)


def codes_of(x):
    """list of z3 code-point terms of a str-like value, or None if x is not str-like."""
    if isinstance(x, SStr):
        return x.codes
    if isinstance(x, str):
        return [_code_of(c) for c in x]
    return None


def _ite_chain(idx, items):
    e = items[-1]
    for j in range(len(items) - 2, -1, -1):
        e = z3.If(idx == j, items[j], e)
    return e


class SStr(object):
    """A string of concrete length whose characters are z3 Int code points."""
    _sym_eq = True
    __array_ufunc__ = None

    def __init__(self, codes):
        self.codes = list(codes)

    # -- basic protocol
    def __len__(self):
        return len(self.codes)

    def __iter__(self):
        for c in self.codes:
            yield mk([c])

    def __getitem__(self, i):
        if isinstance(i, slice):
            return mk(self.codes[i])
        if isinstance(i, (SymInt, SymBool)):
            n = len(self.codes)
            ie = zint(i)
            idx = z3.If(ie < 0, ie + n, ie)
            if not eng().decide(z3.And(idx >= 0, idx < n)):
                raise IndexError("string index out of range")
            return mk([_ite_chain(idx, self.codes)])
        if type(i).__module__ == "numpy" and "float" in type(i).__name__ or isinstance(i, float):
            raise TypeError("string indices must be integers, not '%s'" % type(i).__name__)
        return mk([self.codes[i]])

    def __add__(self, o):
        oc = codes_of(o)
        if oc is None:
            return NotImplemented
        return mk(self.codes + oc)

    def __radd__(self, o):
        oc = codes_of(o)
        if oc is None:
            return NotImplemented
        return mk(oc + self.codes)

    def __mul__(self, k):
        k = core.concrete_int(k)
        return mk(self.codes * k)

    __rmul__ = __mul__

    def _eq_term(self, o):
        oc = codes_of(o)
        if oc is None or len(oc) != len(self.codes):
            return None
        if not oc:
            return z3.BoolVal(True)
        return z3.And([a == b for a, b in zip(self.codes, oc)])

    def __eq__(self, o):
        t = self._eq_term(o)
        if t is None:
            return False
        return SymBool(t)

    def __ne__(self, o):
        t = self._eq_term(o)
        if t is None:
            return True
        return SymBool(z3.Not(t))

    def _lt(self, o, strict_len):
        oc = codes_of(o)
        if oc is None:
            raise TypeError("'<' not supported")
        for a, b in zip(self.codes, oc):
            if eng().decide(a < b):
                return True
            if eng().decide(a > b):
                return False
        return strict_len(len(self.codes), len(oc))

    def __lt__(self, o):
        return self._lt(o, lambda a, b: a < b)

    def __le__(self, o):
        return self._lt(o, lambda a, b: a <= b)

    def __gt__(self, o):
        return not self._lt(o, lambda a, b: a <= b)

    def __ge__(self, o):
        return not self._lt(o, lambda a, b: a < b)

    def __hash__(self):
        return hash(self.concretize())

    def concretize(self):
        return "".join(chr(eng().concretize(c)) for c in self.codes)

    def __contains__(self, o):
        t = contains_term(self.codes, codes_of(o))
        return eng().decide(t)

    def __repr__(self):
        return "<sym-str len=%d>" % len(self.codes)

    __str__ = __repr__

    # -- str methods used by the repository
    def count(self, sub):
        sc = codes_of(sub)
        m, n = len(sc), len(self.codes)
        if m == 0:
            return n + 1
        if m == 1:
            return SymInt(z3.Sum([z3.If(c == sc[0], 1, 0) for c in self.codes]) if n else z3.IntVal(0))
        return _b.str.count(self.concretize(), sub if isinstance(sub, str) else sub.concretize())

    def index(self, sub, *a):
        sc = codes_of(sub)
        if a or len(sc) != 1:
            return self.concretize().index(sub if isinstance(sub, str) else sub.concretize(), *a)
        present = z3.Or([c == sc[0] for c in self.codes]) if self.codes else z3.BoolVal(False)
        if not eng().decide(present):
            raise ValueError("substring not found")
        e = z3.IntVal(len(self.codes) - 1)
        for j in range(len(self.codes) - 2, -1, -1):
            e = z3.If(self.codes[j] == sc[0], j, e)
        return SymInt(e)

    def find(self, sub, *a):
        try:
            return self.index(sub, *a)
        except ValueError:
            return -1

    def rindex(self, sub, *a):
        sc = codes_of(sub)
        if a or len(sc) != 1:
            return self.concretize().rindex(sub if isinstance(sub, str) else sub.concretize(), *a)
        present = z3.Or([c == sc[0] for c in self.codes]) if self.codes else z3.BoolVal(False)
        if not eng().decide(present):
            raise ValueError("substring not found")
        e = z3.IntVal(0)
        for j in range(1, len(self.codes)):
            e = z3.If(self.codes[j] == sc[0], j, e)
        return SymInt(e)

    def rfind(self, sub, *a):
        try:
            return self.rindex(sub, *a)
        except ValueError:
            return -1

    def replace(self, a, b, *cnt):
        ac, bc = codes_of(a), codes_of(b)
        if cnt or len(ac) != 1 or len(bc) != 1:
            return K(self.concretize().replace(str(a), str(b), *cnt))
        return mk([z3.If(c == ac[0], bc[0], c) for c in self.codes])

    def upper(self):
        return mk([z3.If(z3.And(c >= 97, c <= 122), c - 32, c) for c in self.codes])

    def lower(self):
        return mk([z3.If(z3.And(c >= 65, c <= 90), c + 32, c) for c in self.codes])

    def zfill(self, width):
        width = core.concrete_int(width)
        n = len(self.codes)
        if width <= n:
            return self
        if n and not (z3.is_int_value(self.codes[0]) and self.codes[0].as_long() not in (43, 45)):
            if eng().decide(z3.Or(self.codes[0] == 43, self.codes[0] == 45)):
                return mk([self.codes[0]] + [_code_of("0")] * (width - n) + self.codes[1:])
        return mk([_code_of("0")] * (width - n) + self.codes)

    def join(self, it):
        return _join(self, it)

    def _strip_set(self, chars):
        if chars is None:
            return [9, 10, 11, 12, 13, 28, 29, 30, 31, 32, 133, 160]
        cc = codes_of(chars)
        if any(not z3.is_int_value(c) for c in cc):
            cc = [z3.IntVal(ord(x)) for x in chars.concretize()]
        return [c.as_long() for c in cc]

    def lstrip(self, chars=None):
        """forks once per possible number of stripped characters (not per string)."""
        st = self._strip_set(chars)
        i = 0
        while i < len(self.codes) and eng().decide(z3.Or([self.codes[i] == c for c in st])):
            i += 1
        return mk(self.codes[i:])

    def rstrip(self, chars=None):
        st = self._strip_set(chars)
        j = len(self.codes)
        while j > 0 and eng().decide(z3.Or([self.codes[j - 1] == c for c in st])):
            j -= 1
        return mk(self.codes[:j])

    def strip(self, chars=None):
        r = self.lstrip(chars)
        return r.rstrip(chars) if isinstance(r, SStr) else K(str.rstrip(r, chars))

    def translate(self, table):
        out = []
        for c in self.codes:
            e = c
            for k_, v in table.items():
                if v is None or (isinstance(v, str) and len(v) != 1):
                    return K(self.concretize().translate(table))
                e = z3.If(c == k_, v if isinstance(v, int) else ord(v), e)
            out.append(e)
        return mk(out)

    def isdigit(self):
        return bool(self.codes) and eng().decide(z3.And([z3.And(c >= 48, c <= 57) for c in self.codes]))

    def startswith(self, p):
        pc = codes_of(p)
        if len(pc) > len(self.codes):
            return False
        return eng().decide(z3.And([a == b for a, b in zip(self.codes, pc)])) if pc else True

    def endswith(self, p):
        pc = codes_of(p)
        if len(pc) > len(self.codes):
            return False
        return eng().decide(z3.And([a == b for a, b in zip(self.codes[len(self.codes) - len(pc):], pc)])) if pc else True

    def __getattr__(self, name):
        # concretise-and-delegate for anything else
        if name.startswith("_"):
            raise AttributeError(name)
        s = self.concretize()
        return getattr(K(s), name)


def contains_term(hay, needle):
    if needle is None:
        raise TypeError("'in <string>' requires string as left operand")
    m, n = len(needle), len(hay)
    if m == 0:
        return z3.BoolVal(True)
    if m > n:
        return z3.BoolVal(False)
    return z3.Or([z3.And([hay[p + q] == needle[q] for q in range(m)]) for p in range(n - m + 1)])


def _join(sep, it):
    items = list(it)
    out = []
    sc = codes_of(sep)
    for i, x in enumerate(items):
        xc = codes_of(x)
        if xc is None:
            raise TypeError("sequence item %d: expected str instance, %s found" % (i, type(x).__name__))
        if i:
            out += sc
        out += xc
    return mk(out)


class K(str):
    """A lifted string literal: an ordinary str whose operations accept symbolic operands."""
    _sym_eq = True
    __array_ufunc__ = None

    def __getitem__(self, i):
        if isinstance(i, (SymInt, SymBool)):
            n = len(self)
            ie = zint(i)
            idx = z3.If(ie < 0, ie + n, ie)
            if not eng().decide(z3.And(idx >= 0, idx < n)):
                raise IndexError("string index out of range")
            return mk([_ite_chain(idx, [_code_of(c) for c in str(self)])])
        if isinstance(i, SymReal):
            raise TypeError("string indices must be integers, not 'numpy.float64'")
        return K(str.__getitem__(self, i))

    def __iter__(self):
        for c in str.__iter__(self):
            yield K(c)

    def index(self, c, *a):
        if isinstance(c, SStr):
            return SStr([_code_of(x) for x in str(self)]).index(c, *a)
        return str.index(self, c, *a)

    def find(self, c, *a):
        if isinstance(c, SStr):
            return SStr([_code_of(x) for x in str(self)]).find(c, *a)
        return str.find(self, c, *a)

    def count(self, c, *a):
        if isinstance(c, SStr):
            return SStr([_code_of(x) for x in str(self)]).count(c, *a)
        return str.count(self, c, *a)

    def __contains__(self, c):
        if isinstance(c, SStr):
            return eng().decide(contains_term([_code_of(x) for x in str(self)], c.codes))
        return str.__contains__(self, c)

    def __add__(self, o):
        if isinstance(o, SStr):
            return mk([_code_of(x) for x in str(self)] + o.codes)
        if not isinstance(o, str):
            return NotImplemented
        return K(str.__add__(self, o))

    def __radd__(self, o):
        if isinstance(o, SStr):
            return mk(o.codes + [_code_of(x) for x in str(self)])
        if not isinstance(o, str):
            return NotImplemented
        return K(str.__add__(o, self))

    def __mul__(self, k):
        if isinstance(k, (SymInt, SymBool)):
            k = core.concrete_int(k)
        return K(str.__mul__(self, k))

    __rmul__ = __mul__

    def __mod__(self, args):
        return K(str.__mod__(self, args))

    def __eq__(self, o):
        if isinstance(o, SStr):
            return o.__eq__(self)
        r = str.__eq__(self, o)
        return r

    def __ne__(self, o):
        if isinstance(o, SStr):
            return o.__ne__(self)
        return str.__ne__(self, o)

    def __lt__(self, o):
        if isinstance(o, SStr):
            return o.__gt__(self)
        return str.__lt__(self, o)

    def __gt__(self, o):
        if isinstance(o, SStr):
            return o.__lt__(self)
        return str.__gt__(self, o)

    def __le__(self, o):
        if isinstance(o, SStr):
            return o.__ge__(self)
        return str.__le__(self, o)

    def __ge__(self, o):
        if isinstance(o, SStr):
            return o.__le__(self)
        return str.__ge__(self, o)

    __hash__ = str.__hash__

    def join(self, it):
        items = list(it)
        if all(type(x) in (str, K) for x in items):
            return K(str.join(self, items))
        return _join(self, items)

    def replace(self, a, b, *c):
        if isinstance(a, SStr) or isinstance(b, SStr):
            return SStr([_code_of(x) for x in str(self)]).replace(a, b, *c)
        return K(str.replace(self, a, b, *c))

    def upper(self):
        return K(str.upper(self))

    def lower(self):
        return K(str.lower(self))

    def zfill(self, w):
        return K(str.zfill(self, core.concrete_int(w)))

    def strip(self, *a):
        return K(str.strip(self, *a))

    def lstrip(self, *a):
        return K(str.lstrip(self, *a))

    def rstrip(self, *a):
        return K(str.rstrip(self, *a))

    def translate(self, table):
        return K(str.translate(self, table))

    def startswith(self, p, *a):
        if isinstance(p, SStr):
            return SStr([_code_of(x) for x in str(self)]).startswith(p)
        return str.startswith(self, p, *a)

    def endswith(self, p, *a):
        if isinstance(p, SStr):
            return SStr([_code_of(x) for x in str(self)]).endswith(p)
        return str.endswith(self, p, *a)

    def format(self, *a, **k):
        return K(str.format(self, *a, **k))


# ------------------------------------------------------------------ big-number stub values
class DecNum(object):
    """Contract stub value: a non-negative decimal string standing for the exact integer v
    (used only by harnesses that stub dsw.operation's big-number helpers; see DESIGN 1.4)."""
    _sym_eq = True
    __array_ufunc__ = None

    def __init__(self, v):
        self.v = v  # z3 Int term

    def __eq__(self, o):
        if isinstance(o, str) and o.isdigit():
            return SymBool(self.v == int(o))
        if isinstance(o, DecNum):
            return SymBool(self.v == o.v)
        return False

    def __ne__(self, o):
        r = self.__eq__(o)
        return SymBool(z3.Not(r.e)) if isinstance(r, SymBool) else (not r)

    __hash__ = None

    def ndigits(self):
        """number of decimal digits (forks)."""
        d = 1
        while not eng().decide(self.v < 10 ** d):
            d += 1
            if d > 400:
                raise Inconclusive("DecNum too long")
        return d

    def __len__(self):
        return self.ndigits()

    def _symx_len(self):
        """len() of the decimal string: an over-approximation (any length >= 1) -- the repository uses it for progress output
        only; a use in real logic would at worst produce a counterexample that fails to replay."""
        d = eng().fresh("ndigits")
        eng().assume(d >= 1)
        return SymInt(d)

    def __repr__(self):
        return "<decnum>"


# --------------------------------------------------------------------- replacement builtins
def sym_int_to_str(x):
    e = zint(x)
    se = z3.simplify(e)
    if z3.is_int_value(se):
        return K(str(se.as_long()))
    neg = eng().decide(e < 0)
    a = -e if neg else e
    d = 1
    while not eng().decide(a < 10 ** d):
        d += 1
        if d > 60:
            raise Inconclusive("str() of an unbounded symbolic integer")
    codes = [((a / (10 ** (d - 1 - i))) % 10) + 48 for i in range(d)]
    if neg:
        codes = [_code_of("-")] + codes
    return mk(codes)


def str_to_sym_int(s):
    codes = s.codes
    if not codes:
        raise ValueError("invalid literal for int() with base 10: ''")
    ok = z3.And([z3.And(c >= 48, c <= 57) for c in codes])
    if not eng().decide(ok):
        # sign / whitespace handling is outside the model: concretise and let Python decide
        return int(s.concretize())
    v = z3.IntVal(0)
    for c in codes:
        v = v * 10 + (c - 48)
    return SymInt(z3.simplify(v))


class _Meta(type):
    def __repr__(cls):
        return "<class '%s'>" % cls._real.__name__

    def __getattr__(cls, name):
        # class-level attributes of the real builtin (str.maketrans, int.from_bytes, dict.fromkeys ...)
        if name.startswith("__"):
            raise AttributeError(name)
        return getattr(cls._real, name)

    def __instancecheck__(cls, x):
        return cls._check(x)

    def __eq__(cls, o):
        return o is cls or o is cls._real

    def __ne__(cls, o):
        return not cls.__eq__(o)

    def __hash__(cls):
        return hash(cls._real)


class PInt(metaclass=_Meta):
    _real = int

    def __new__(cls, x=0, *a):
        if a:
            if isinstance(x, SStr):
                x = x.concretize()
            return int(x, *a)
        if isinstance(x, SymInt):
            return SymInt(x.e, False)
        if isinstance(x, SymBool):
            return SymInt(zint(x), False)
        if isinstance(x, SymReal):
            e = x.e
            return SymInt(z3.If(e >= 0, z3.ToInt(e), -z3.ToInt(-e)), False)
        if isinstance(x, SStr):
            return str_to_sym_int(x)
        if isinstance(x, DecNum):
            return SymInt(x.v, False)
        if hasattr(x, "_symx_int"):
            return x._symx_int()
        return int(x)

    @staticmethod
    def _check(x):
        return (isinstance(x, int) or (isinstance(x, (SymInt, SymBool)) and not x.np))


def _concrete_container(x):
    """str() / repr() of a container as the code under test sees it: symbolic members are concretised (forking)"""
    if isinstance(x, SymInt):
        return core.eng().concretize(x.e) if not x.np else _numpy_scalar(core.eng().concretize(x.e))
    if isinstance(x, SymBool):
        return bool(x)
    if isinstance(x, SStr):
        return x.concretize()
    if isinstance(x, K):
        return str.__str__(x)
    if isinstance(x, list):
        return [_concrete_container(y) for y in x]
    if isinstance(x, tuple):
        return tuple(_concrete_container(y) for y in x)
    if isinstance(x, set):
        return set(_concrete_container(y) for y in x)
    if isinstance(x, dict):
        return {_concrete_container(a): _concrete_container(b) for a, b in x.items()}
    return x


def _numpy_scalar(v):
    import numpy
    return numpy.int64(v)


class PStr(metaclass=_Meta):
    _real = str

    def __new__(cls, x="", *a):
        if a:
            return K(str(x, *a))
        if isinstance(x, (SymInt,)):
            return sym_int_to_str(x)
        if isinstance(x, SymBool):
            return K("True") if bool(x) else K("False")
        if isinstance(x, (SStr, DecNum)):
            return x
        if isinstance(x, K):
            return x
        if isinstance(x, _Meta):
            return K(repr(x))
        if isinstance(x, (list, tuple, dict, set)):
            return K(str(_concrete_container(x)))
        return K(str(x))

    @staticmethod
    def _check(x):
        return isinstance(x, (str, SStr, DecNum))

    # let `str.join`-style unbound calls work
    join = staticmethod(lambda sep, it: _join(sep, it))


def b_type(x, *a):
    if a:
        return type(x, *a)
    if isinstance(x, (SymInt,)):
        return _numpy().int64 if x.np else PInt
    if isinstance(x, SymBool):
        return _numpy().bool_ if x.np else bool
    if isinstance(x, SymReal):
        return _numpy().float64 if x.np else float
    if isinstance(x, (SStr, K, DecNum)):
        return PStr
    if type(x) is int:
        return PInt
    if type(x) is str:
        return PStr
    if hasattr(x, "_symx_type"):
        return x._symx_type()
    return type(x)


def b_len(x):
    n = getattr(x, "_symx_len", None)
    if n is not None:
        return n()
    return len(x)


class SymSet(object):
    """set of symbolic strings: membership by (forking) symbolic equality."""

    def __init__(self, it=()):
        self.items = []
        for x in it:
            self.add(x)

    def add(self, x):
        if x not in self:
            self.items.append(x)

    def __contains__(self, x):
        for y in self.items:
            r = (x == y)
            if r is True or (r is not False and bool(r)):
                return True
        return False

    def __iter__(self):
        return iter(list(self.items))

    def __len__(self):
        return len(self.items)

    def __or__(self, o):
        return SymSet(list(self.items) + list(o))

    def discard(self, x):
        for i, y in enumerate(self.items):
            r = (x == y)
            if r is True or (r is not False and bool(r)):
                del self.items[i]
                return

    def remove(self, x):
        n = len(self.items)
        self.discard(x)
        if len(self.items) == n:
            raise KeyError(x)


class PSet(metaclass=_Meta):
    _real = set

    def __new__(cls, it=()):
        items = list(it)
        if any(isinstance(x, SStr) for x in items):
            return SymSet(items)
        return _AdaptiveSet(items)

    @staticmethod
    def _check(x):
        return isinstance(x, (set, SymSet))


class _AdaptiveSet(set):
    """a real set (hashing a SymInt concretises it) that turns symbolic-string aware on demand."""

    def __init__(self, items=()):
        set.__init__(self, items)
        self._sym = None

    def add(self, x):
        if self._sym is not None:
            return self._sym.add(x)
        if isinstance(x, SStr):
            self._sym = SymSet(set.__iter__(self))
            set.clear(self)
            return self._sym.add(x)
        return set.add(self, x)

    def __contains__(self, x):
        if self._sym is not None:
            return x in self._sym
        if isinstance(x, SStr):
            return x in SymSet(set.__iter__(self))
        return set.__contains__(self, x)

    def __iter__(self):
        if self._sym is not None:
            return iter(self._sym)
        return set.__iter__(self)

    def __len__(self):
        if self._sym is not None:
            return len(self._sym)
        return set.__len__(self)


def make_builtins(import_hook, quiet_print=True):
    b = dict(_b.__dict__)
    b["__import__"] = import_hook
    b["len"] = b_len
    b["int"] = PInt
    b["str"] = PStr
    b["type"] = b_type
    b["set"] = PSet
    if quiet_print:
        def _print(*a, **k):
            # format like print (so that formatting errors surface) but write nothing
            k.get("sep", " ").join(str(x) for x in a)
        b["print"] = _print
    return b
