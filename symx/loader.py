"""symx.loader -- load the repository's own modules (from the current working tree) for symbolic
execution.  The source of dsw/{operation,graphized,biofilter,spiderweb}.py is read at call time,
string literals are lifted to strs.K (docstrings untouched), and each module is exec'd in a
private namespace whose builtins (len/int/str/type/set/print) and imports (numpy) are the
symbolic-aware shims.  Nothing is written to the repository; optional in-memory source patches
(canaries) are applied to the text before parsing."""
import ast
import builtins
import os
import types

from . import strs, symnp

REPO = os.environ.get("VERIF_REPO", "/repo")
MODULES = ["operation", "graphized", "biofilter", "spiderweb"]


class _Lift(ast.NodeTransformer):
    def visit_Expr(self, node):
        if isinstance(node.value, ast.Constant) and isinstance(node.value.value, str):
            return node  # docstring / bare string statement
        return self.generic_visit(node)

    def visit_JoinedStr(self, node):
        return node

    def visit_Constant(self, node):
        if isinstance(node.value, str):
            return ast.copy_location(
                ast.Call(func=ast.Name(id="_symx_K", ctx=ast.Load()), args=[node], keywords=[]), node)
        return node


def _concretising_module(real):
    """library boundary (C-level type checks, e.g. `re`): symbolic strings / ints are concretised (forked) before the call --
    sound and exhaustive on the bounded domains, possibly expensive."""
    def conv(x):
        if isinstance(x, strs.SStr):
            return x.concretize()
        if isinstance(x, (list, tuple)):
            return type(x)(conv(y) for y in x)
        return x
    m = types.ModuleType(real.__name__)
    for name in dir(real):
        obj = getattr(real, name)
        if isinstance(obj, types.FunctionType) or isinstance(obj, types.BuiltinFunctionType):
            def mk(f):
                def w(*a, **k):
                    return f(*[conv(x) for x in a], **{kk: conv(v) for kk, v in k.items()})
                w.__name__ = getattr(f, "__name__", "f")
                return w
            setattr(m, name, mk(obj))
        else:
            try:
                setattr(m, name, obj)
            except Exception:
                pass
    return m


class NoMonitor(object):
    """stub of dsw.operation.Monitor: progress output has no effect on results (checked in C20)."""

    def __init__(self):
        self.last_time = None

    def __call__(self, *a, **k):
        return None


class Loaded(object):
    def __init__(self):
        self.ns = {}
        self.entered = {}
        self.sources = {}

    def __getattr__(self, name):
        for m in ("spiderweb", "graphized", "operation", "biofilter"):
            if m in self.ns and name in self.ns[m]:
                return self.ns[m][name]
        raise AttributeError(name)

    def functions_entered(self):
        return sorted(k for k, v in self.entered.items() if v)


def read_source(mod, repo=None):
    with open(os.path.join(repo or REPO, "dsw", mod + ".py")) as f:
        return f.read()


def load(repo=None, patches=None, stubs=None, random_impl=None, real_monitor=False, quiet_print=True,
         extra_globals=None):
    """patches: {module: [(old, new), ...]} textual replacements applied in memory (each `old` must
    occur exactly once).  stubs: {module: {name: replacement}} applied after the module is
    executed and before dependants import it."""
    L = Loaded()
    npmod = symnp.make_module(random_impl)
    L.numpy = npmod
    modobjs = {}
    real_import = builtins.__import__

    boundary = {}

    def imp(name, globals=None, locals=None, fromlist=(), level=0):
        if name == "numpy":
            return npmod
        if name in ("re", "fnmatch", "difflib"):
            if name not in boundary:
                boundary[name] = _concretising_module(real_import(name, globals, locals, fromlist, level))
            return boundary[name]
        if name.startswith("dsw"):
            if name == "dsw":
                pkg = types.ModuleType("dsw")
                for m, o in modobjs.items():
                    setattr(pkg, m, o)
                return pkg
            short = name.split(".", 1)[1]
            if short in modobjs:
                if fromlist:
                    return modobjs[short]
                pkg = types.ModuleType("dsw")
                setattr(pkg, short, modobjs[short])
                return pkg
            raise ImportError("symx loader: %s not loaded yet" % name)
        return real_import(name, globals, locals, fromlist, level)

    bi = strs.make_builtins(imp, quiet_print=quiet_print)
    for mod in MODULES:
        src = read_source(mod, repo)
        for old, new in (patches or {}).get(mod, []):
            if src.count(old) != 1:
                raise RuntimeError("canary patch does not apply uniquely to %s: %r" % (mod, old))
            src = src.replace(old, new)
        L.sources[mod] = src
        tree = _Lift().visit(ast.parse(src))
        ast.fix_missing_locations(tree)
        code = compile(tree, os.path.join(repo or REPO, "dsw", mod + ".py"), "exec")
        g = {"__builtins__": bi, "__name__": "dsw." + mod, "_symx_K": strs.K}
        if extra_globals:
            g.update(extra_globals)
        exec(code, g)
        if mod == "operation" and not real_monitor:
            g["Monitor"] = NoMonitor
        for name, repl in (stubs or {}).get(mod, {}).items():
            g[name] = repl
        # function-entry log (evidence: which functions of the real source were executed)
        for name, obj in list(g.items()):
            if isinstance(obj, types.FunctionType) and obj.__module__ == "dsw." + mod and not name.startswith("_symx"):
                g[name] = _logged(obj, L.entered, mod + "." + name)
            elif isinstance(obj, type) and obj.__module__ == "dsw." + mod:
                for an, av in list(vars(obj).items()):
                    if isinstance(av, types.FunctionType):
                        setattr(obj, an, _logged(av, L.entered, mod + "." + name + "." + an))
        L.ns[mod] = g
        mo = types.ModuleType("dsw." + mod)
        mo.__dict__.update({k: v for k, v in g.items() if k != "__builtins__"})
        modobjs[mod] = mo
    return L


def _logged(f, table, key):
    table.setdefault(key, 0)

    def wrapper(*a, **k):
        table[key] += 1
        return f(*a, **k)
    wrapper.__name__ = f.__name__
    wrapper.__doc__ = f.__doc__
    wrapper.__wrapped__ = f
    wrapper.__defaults__ = f.__defaults__
    return wrapper
