"""Translator validation: the shim-loaded repository modules, run in concrete mode, must give exactly the results of
the real modules (real numpy) on the repository's own doctest/test inputs and on seeded random inputs."""
import os
import random
import sys

import numpy as np

from . import core, loader, symnp, strs

REPO = loader.REPO


def norm(x):
    if isinstance(x, symnp.Arr):
        return ("arr", x.dtype, norm(x.tolist()))
    if isinstance(x, np.ndarray):
        dt = {"b": "bool", "i": "int64", "u": "int64", "f": "float64"}.get(x.dtype.kind, str(x.dtype))
        return ("arr", dt, norm(x.tolist()))
    if isinstance(x, (core.SymInt, core.SymBool)):
        return core.concrete_int(x) if isinstance(x, core.SymInt) else bool(x)
    if isinstance(x, (np.integer,)):
        return int(x)
    if isinstance(x, (np.bool_,)):
        return bool(x)
    if isinstance(x, (np.floating, float)):
        return round(float(x), 9)
    if isinstance(x, str):
        return str(x)
    if isinstance(x, (list, tuple)):
        return [norm(y) for y in x]
    if isinstance(x, dict):
        return sorted((norm(k), norm(v)) for k, v in x.items())
    return x


def run(seed=0, rounds=25):
    if REPO not in sys.path:
        sys.path.insert(0, REPO)
    for m in [m for m in sys.modules if m == "dsw" or m.startswith("dsw.")]:
        del sys.modules[m]
    import dsw
    assert os.path.abspath(dsw.__file__).startswith(os.path.abspath(REPO)), dsw.__file__
    L = loader.load()
    rng = random.Random(seed)
    cases = []

    def rand_graph(k, p):
        N = 4 ** k
        return [[((v * 4 + j) % N if rng.random() < p else -1) for j in range(4)] for v in range(N)]

    gc = [[-1, -1, -1, -1], [4, -1, -1, 7], [8, -1, -1, 11], [-1, -1, -1, -1], [-1, 1, 2, -1], [-1, -1, -1, -1], [-1, -1, -1, -1], [-1, 13, 14, -1],
          [-1, 1, 2, -1], [-1, -1, -1, -1], [-1, -1, -1, -1], [-1, 13, 14, -1], [-1, -1, -1, -1], [4, -1, -1, 7], [8, -1, -1, 11], [-1, -1, -1, -1]]

    def A(x, dtype=None):
        return ("A", x, dtype)

    def add(fn, *a, **k):
        cases.append((fn, a, k))
    for r in range(rounds):
        k = rng.choice([1, 2, 2, 3])
        g = rand_graph(k, rng.choice([0.5, 0.8, 1.0])) if r % 5 else gc
        kk = 2 if g is gc else k
        N = 4 ** kk
        bits = [rng.randint(0, 1) for _ in range(rng.randint(0, 12))]
        start = rng.randrange(N)
        table = [rng.sample(range(4), 4) for _ in range(N)] if r % 3 == 0 else None
        fast = bool(r % 2)
        vt = rng.choice([0, 0, 2, 4])
        add("encode", A(bits, int), A(g), start, is_faster=fast, vt_length=vt, shuffles=A(table) if table else None)
        s = "".join(rng.choice("ACGT") for _ in range(rng.randint(0, 10)))
        add("decode", s, rng.randint(0, 12), A(g), start, is_faster=fast, shuffles=A(table) if table else None)
        add("decode", s, 8, A(g), start, vt_check="ACG"[:rng.randint(1, 3)])
        add("set_vt", s, rng.randint(1, 5))
        add("repair_dna", s + "ACGT", A(g), start, kk, has_indel=bool(r % 2), vt_check=None if r % 3 else "AC")
        mask = [rng.randint(0, 1) for _ in range(N)]
        add("connect_valid_graph", kk, A(mask, bool if r % 2 else int))
        add("connect_coding_graph", kk, A(mask, int if r % 2 else bool), rng.randint(1, 4))
        add("accessor_to_latter_map", A(g))
        add("accessor_to_adjacency_matrix", A(g))
        add("obtain_vertices", A(g))
        add("obtain_leaf_vertices", start, rng.randint(0, 3), accessor=A(g))
        add("approximate_capacity", A(g), repeats=1)
        add("approximate_capacity", A(g), repeats=1, process=True)
        add("bit_to_number", bits)
        add("bit_to_number", bits, is_string=False)
        v = rng.randrange(10 ** rng.randint(1, 12))
        add("number_to_bit", str(v), rng.randint(1, 45))
        add("number_to_bit", v, rng.randint(1, 45))
        add("number_to_dna", str(v), rng.randint(1, 22))
        add("number_to_dna", v, rng.randint(1, 22))
        add("dna_to_number", s)
        add("dna_to_number", s, is_string=False)
        d = str(rng.randint(0, 9))
        add("calculus_addition", str(v), d)
        add("calculus_multiplication", str(v), d)
        add("calculus_division", str(v), d)
        if v >= 9:
            add("calculus_subtraction", str(v), d)
        add("obtain_latters", rng.randrange(4 ** 5), 5)
        add("obtain_formers", rng.randrange(4 ** 5), 5)
        add("create_random_shuffles", kk, rng.randint(0, 50))
    add("get_complete_accessor", 2)
    add("get_complete_accessor", 3)
    add("_latter_roundtrip", A(gc))
    add("_matrix_roundtrip", A(gc))
    add("_scores", A(gc), 2)
    add("_remove", A(gc))
    add("_filter", dict(observed_length=4, max_homopolymer_runs=2, gc_range=[0.25, 0.75], undesired_motifs=["GC", "ACA"]), ["ACGTAC", "GGGG", "AC", "", "ACGN", "TGTA", "GCAT"])
    add("_filter", dict(observed_length=3, gc_range=[0.1, 0.3]), ["ACG", "AAT", "AT", "G", "CCC"])
    add("_find", dict(observed_length=2, max_homopolymer_runs=2, gc_range=[0.5, 0.5]), 2)
    add("_find", dict(observed_length=3, max_homopolymer_runs=1), 3)

    def conv(x, real):
        if isinstance(x, tuple) and len(x) == 3 and x[0] == "A":
            if real:
                return np.array(x[1], dtype=x[2]) if x[2] else np.array(x[1])
            return symnp.array(x[1], dtype=x[2]) if x[2] else symnp.array(x[1])
        return x

    def special(ns_get, fn, a, k, real):
        if fn == "_latter_roundtrip":
            lm = ns_get("accessor_to_latter_map")(a[0])
            return [lm, ns_get("latter_map_to_accessor")(lm, 2), ns_get("latter_map_to_accessor")(lm, 2, threshold=2)]
        if fn == "_matrix_roundtrip":
            mx = ns_get("accessor_to_adjacency_matrix")(a[0])
            return [mx, ns_get("adjacency_matrix_to_accessor")(mx)]
        if fn == "_scores":
            lm = ns_get("accessor_to_latter_map")(a[0])
            return [ns_get("calculate_intersection_score")(lm, observed_length=a[1], has_insertion=i, has_deletion=d) for i in (True, False) for d in (True, False)]
        if fn == "_remove":
            lm = ns_get("accessor_to_latter_map")(a[0])
            out = []
            acc = a[0]
            for _ in range(3):
                acc, lm, arc, sc = ns_get("remove_nasty_arc")(acc, lm)
                out.append([acc.tolist() if hasattr(acc, "tolist") else acc, lm, arc, sc])
            return out
        if fn == "_filter":
            f = ns_get("LocalBioFilter")(**a[0])
            return [[f.valid(s), f.valid(s, only_last=False)] for s in a[1]]
        if fn == "_find":
            f = ns_get("LocalBioFilter")(**a[0])
            return ns_get("find_vertices")(a[1], f)
        raise KeyError(fn)

    def call(ns_get, fn, a, k, real):
        a = tuple(conv(x, real) for x in a)
        k = {kk: conv(v, real) for kk, v in k.items()}
        try:
            if fn.startswith("_"):
                return ("ok", norm(special(ns_get, fn, a, k, real)))
            return ("ok", norm(ns_get(fn)(*a, **k)))
        except core.Abort:
            raise
        except Exception as ex:
            return ("exc", type(ex).__name__)

    bad = []
    n = 0
    for fn, a, k in cases:
        np.random.seed(1)
        want = call(lambda name: getattr(dsw, name), fn, a, k, True)
        np.random.seed(1)
        got = [None]

        def body(e, fn=fn, a=a, k=k):
            got[0] = call(lambda name: getattr(L, name), fn, a, k, False)
        eng = core.Engine()
        res, left = eng.explore(body)
        n += 1
        if len(res) != 1 or left or got[0] != want:
            bad.append((fn, repr(a)[:160], repr(k)[:80], "shim=%r" % (got[0],), "real=%r" % (want,)))
    return n, bad
