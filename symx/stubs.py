"""symx.stubs -- contract stubs (every one is part of the claim of the harness that uses it).

DecNum big-number contract (DESIGN 1.4): the decimal-string helpers of dsw.operation return the
mathematically exact result; the string itself is represented by strs.DecNum (a z3 Int).  C15 and
C16 check that contract on the real string code; graph-walk harnesses that use the stub say so and
have a second, smaller pass on the real string code.
"""
import z3

from . import core
from .core import SymInt, SymBool, Inconclusive, eng, zint
from .strs import DecNum, K, SStr, str_to_sym_int, sym_int_to_str


class SmallStr(object):
    """str(x) of a small non-negative symbolic integer x, as handed to the stubbed helpers."""
    _sym_eq = True
    __array_ufunc__ = None

    def __init__(self, i):
        self.i = i

    def _symx_int(self):
        return self.i if isinstance(self.i, SymInt) else int(self.i)


def _val(x):
    """z3 Int of a decimal operand."""
    if isinstance(x, DecNum):
        return x.v
    if isinstance(x, SStr):
        return zint(str_to_sym_int(x))
    if isinstance(x, str):
        return z3.IntVal(int(x))
    raise TypeError("decimal operand of type %s" % type(x).__name__)


def _base(x):
    """(z3 term, candidate concrete values) of a single-digit base operand."""
    e = z3.simplify(_val(x))
    if z3.is_int_value(e):
        return e, [e.as_long()]
    return e, list(range(0, 10))


def bit_to_number(bit_array, is_string=True, verbose=False):
    v = z3.IntVal(0)
    for b in bit_array:
        v = v * 2 + zint(b)
    v = z3.simplify(v)
    if not is_string:
        return SymInt(v) if not z3.is_int_value(v) else v.as_long()
    return DecNum(v)


def calculus_division(number, base):
    n = _val(number)
    b, cands = _base(base)
    if cands == [0]:
        return K("0"), K("0")
    q, r = z3.IntVal(0), z3.IntVal(0)
    for c in cands:
        if c == 0:
            continue
        q = z3.If(b == c, n / c, q)
        r = z3.If(b == c, n % c, r)
    return DecNum(z3.simplify(q)), DecNum(z3.simplify(r))


def calculus_multiplication(number, base):
    n = _val(number)
    b, cands = _base(base)
    p = z3.IntVal(0)
    for c in cands:
        p = z3.If(b == c, n * c, p)
    return DecNum(z3.simplify(p))


def calculus_addition(number, base):
    return DecNum(z3.simplify(_val(number) + _val(base)))


def calculus_subtraction(number, base):
    return DecNum(z3.simplify(_val(number) - _val(base)))


def number_to_bit(decimal_number, bit_length):
    """real semantics: binary digits, left-padded to bit_length, or the *leading* bit_length digits
    when the value is wider (the repository truncates from the left of the list)."""
    if isinstance(decimal_number, (int, SymInt)) and not isinstance(decimal_number, bool):
        v = zint(decimal_number)
    else:
        v = _val(decimal_number)
    bit_length = core.concrete_int(bit_length)
    if eng().decide(v < 2 ** bit_length):
        return [SymInt(z3.simplify((v / (2 ** (bit_length - 1 - i))) % 2)) for i in range(bit_length)]
    # wider than requested: number of binary digits w (forks), then keep the first bit_length ones
    w = bit_length + 1
    while not eng().decide(v < 2 ** w):
        w += 1
        if w > bit_length + 64:
            raise Inconclusive("number_to_bit stub: value too wide")
    return [SymInt(z3.simplify((v / (2 ** (w - 1 - i))) % 2)) for i in range(bit_length)]


OPERATION_STUBS = dict(bit_to_number=bit_to_number, calculus_division=calculus_division,
                       calculus_multiplication=calculus_multiplication, calculus_addition=calculus_addition,
                       calculus_subtraction=calculus_subtraction, number_to_bit=number_to_bit)

STUB_NOTE = ("dsw.operation big-number helpers (bit_to_number, calculus_addition/subtraction/multiplication/"
             "division, number_to_bit) replaced by their exact-integer contract (checked on the real string code "
             "by C15/C16)")
