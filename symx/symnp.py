"""symx.symnp -- a model of exactly the numpy surface the repository uses, over symbolic scalars.

Arrays have concrete shape (1-D or 2-D) and a dtype tag (bool / int64 / float64); elements are
Python scalars or SymInt / SymBool / SymReal.  Basic indexing returns write-through views (shared
buffer + offset list), fancy / mask indexing copies -- as numpy does.  One exception to
"concrete shape": 1-D results of `where(mask)[0]` and of boolean-mask selection carry a
*symbolic logical length* `n` (a SymInt) over a concrete capacity, so that one path can stand
for all masks (policy `WHERE_POLICY = "symlen"`); with policy "concrete" every mask bit is
decided (forked) instead.

Anything not modelled here is *concretised and delegated* to real numpy (`delegate`), which is
sound and exhaustive on the bounded domains the harnesses use.
"""
import operator
import types

import numpy as _rnp
import z3

from . import core
from .core import SymInt, SymBool, SymReal, Inconclusive, Abort, Budget, eng, zint, zbool, zreal, is_sym, concrete_int
from . import strs

WHERE_POLICY = "symlen"      # or "concrete"
SYMLEN_MAX_CAP = 24          # masks longer than this are always concretised

BOOL, INT, FLOAT = "bool", "int64", "float64"
_NPT = {BOOL: _rnp.bool_, INT: _rnp.int64, FLOAT: _rnp.float64}


class _Unsupported(Exception):
    """raised inside the shim where ITS OWN model ends (not a numpy error): the operation is then concretised and delegated"""


class AccessBudget(object):
    def __init__(self, limit):
        self.limit = limit
        self.count = 0

    def hit(self):
        self.count += 1
        if self.limit is not None and self.count > self.limit:
            raise Budget("access budget %d exceeded" % self.limit)


# ----------------------------------------------------------------------------- scalars
def _item(x):
    if type(x).__module__ == "numpy" and getattr(x, "ndim", 1) == 0:
        return x.item()
    return x


def _cast_in(x, dtype):
    """value as stored in an array of the given dtype (numpy assignment casting)."""
    x = _item(x)
    if dtype == BOOL:
        if isinstance(x, SymBool):
            return SymBool(x.e) if x.np else x
        if is_sym(x):
            return SymBool(zbool(x))
        return bool(x)
    if dtype == INT:
        if isinstance(x, SymInt):
            return x
        if isinstance(x, SymBool):
            return SymInt(zint(x))
        if isinstance(x, SymReal):
            return strs.PInt(x)
        if isinstance(x, float):
            if x != x or x in (float("inf"), float("-inf")):
                raise Inconclusive("non-finite float stored into an int array")
            return int(x)
        if isinstance(x, (bool, int)):
            return int(x)
        raise TypeError("int() argument must be a string, a bytes-like object or a real number, not '%s'"
                        % type(x).__name__)
    if dtype == FLOAT:
        if isinstance(x, SymReal):
            return x
        if is_sym(x):
            return SymReal(zreal(x))
        return float(x)
    raise Inconclusive("dtype %r" % (dtype,))


def _out(x, dtype):
    """scalar handed to the program when an element is read."""
    if isinstance(x, SymInt):
        return SymInt(x.e, True)
    if isinstance(x, SymBool):
        return SymBool(x.e, True)
    if isinstance(x, SymReal):
        return x
    return _NPT[dtype](x)


def _dtype_of_scalar(x):
    x = _item(x)
    if isinstance(x, (bool, SymBool)):
        return BOOL
    if isinstance(x, (int, SymInt)):
        return INT
    if isinstance(x, (float, SymReal)):
        return FLOAT
    return None


def _join_dtype(a, b):
    order = [BOOL, INT, FLOAT]
    return order[max(order.index(a), order.index(b))]


class NBuf(list):
    """buffer of a narrow integer array (int8/16/32, unsigned 8/16/32): shared by all views, carries the value range"""
    irange = None


def _int_range(t):
    """(lo, hi) when t names a machine integer type narrower than 64 bits, else None"""
    if t is None or t is int or t is float or t is bool or t in (BOOL, INT, FLOAT) or t is strs.PInt:
        return None
    try:
        d = _rnp.dtype(t)
    except Exception:
        return None
    if d.kind in "iu" and d.itemsize < 8:
        ii = _rnp.iinfo(d)
        return (int(ii.min), int(ii.max))
    return None


def _wrap_range(v, rng):
    """array-to-array cast into a narrow type: two's complement wrap"""
    lo, hi = rng
    v = _item(v)
    if isinstance(v, SymBool) or isinstance(v, bool):
        return v
    if is_sym(v):
        e = zint(v)
        return SymInt(z3.If(z3.And(e >= lo, e <= hi), e, (e - lo) % (hi - lo + 1) + lo))
    if isinstance(v, int):
        return (v - lo) % (hi - lo + 1) + lo
    return v


def _check_range(v, rng):
    """scalar store into a narrow array: numpy 2 raises OverflowError for out-of-range Python / numpy integers"""
    lo, hi = rng
    v = _item(v)
    if isinstance(v, (SymBool, bool, float, SymReal)):
        return
    if is_sym(v):
        e = zint(v)
        if not eng().decide(z3.And(e >= lo, e <= hi)):
            raise OverflowError("Python integer out of bounds for a %d..%d integer array" % (lo, hi))
    elif isinstance(v, int) and not lo <= v <= hi:
        raise OverflowError("Python integer %d out of bounds for a %d..%d integer array" % (v, lo, hi))


def _norm_dtype(t):
    if t is None:
        return None
    if isinstance(t, str) and t in (BOOL, INT, FLOAT):
        return t
    if t is bool or t is _rnp.bool_:
        return BOOL
    if t is int or t is strs.PInt or t is _rnp.int64 or t is _rnp.int_:
        return INT
    if t is float or t is _rnp.float64:
        return FLOAT
    if isinstance(t, str):
        if t.startswith("int"):
            return INT
        if t.startswith("float"):
            return FLOAT
        if t.startswith("bool"):
            return BOOL
    try:
        k = _rnp.dtype(t).kind
        return {"b": BOOL, "i": INT, "u": INT, "f": FLOAT}[k]
    except Exception:
        raise Inconclusive("unsupported dtype %r" % (t,))


_CMP = {"lt": operator.lt, "le": operator.le, "gt": operator.gt, "ge": operator.ge, "eq": operator.eq, "ne": operator.ne}
_ARI = {"add": operator.add, "sub": operator.sub, "mul": operator.mul, "floordiv": operator.floordiv,
        "mod": operator.mod, "truediv": operator.truediv, "pow": operator.pow}


def _scalar_op(op, a, b, da, db):
    """numpy semantics for one element pair; returns (value, dtype)."""
    sa, sb = is_sym(a), is_sym(b)
    if not sa and not sb:
        with _rnp.errstate(all="ignore"):
            r = (_CMP.get(op) or _ARI[op])(_NPT[da](a), _NPT[db](b))
        dt = _dtype_of_scalar(r)
        if dt is None:
            raise Inconclusive("numpy result type %r" % type(r))
        return _item(r), dt
    if op in _CMP:
        r = _CMP[op](a, b)
        if r is True or r is False:
            return r, BOOL
        return SymBool(r.e), BOOL
    jd = _join_dtype(da, db)
    if op == "truediv":
        return SymReal(zreal(a) / zreal(b)), FLOAT
    if jd == FLOAT:
        f = {"add": lambda x, y: x + y, "sub": lambda x, y: x - y, "mul": lambda x, y: x * y}.get(op)
        if f is None:
            raise Inconclusive("float %s on symbolic operands" % op)
        return SymReal(f(zreal(a), zreal(b))), FLOAT
    if jd == BOOL:
        if op == "add":
            return SymBool(z3.Or(zbool(a), zbool(b))), BOOL
        if op == "mul":
            return SymBool(z3.And(zbool(a), zbool(b))), BOOL
        raise Inconclusive("bool %s" % op)
    # int64
    ia = a if isinstance(a, SymInt) else (SymInt(zint(a)) if sa else int(a))
    ib = b if isinstance(b, SymInt) else (SymInt(zint(b)) if sb else int(b))
    if op in ("floordiv", "mod"):
        # numpy: division by zero gives 0 (with a warning), never an exception
        if not sb:
            if ib == 0:
                return 0, INT
            r = _ARI[op](ia, ib)
        else:
            d = concrete_int(ib)
            if d == 0:
                return 0, INT
            r = _ARI[op](ia, d)
    else:
        r = _ARI[op](ia, ib)
    if isinstance(r, SymInt):
        r = SymInt(core.wrap64(r.e))        # numpy int64 arithmetic wraps around silently
    return r, INT


def _ite(c, a, b, dtype):
    """element-level if-then-else on stored values; c is a z3 Bool."""
    if dtype == BOOL:
        return SymBool(z3.If(c, zbool(a), zbool(b)))
    if dtype == INT:
        return SymInt(z3.If(c, zint(a), zint(b)))
    return SymReal(z3.If(c, zreal(a), zreal(b)))


def _select(idx, items, dtype):
    """items[idx] for a z3 Int idx known to be in range, as a stored value (no fork)."""
    if all(not is_sym(x) for x in items) and len(set(items)) == 1:
        return items[0]
    if dtype == BOOL:
        e = zbool(items[-1])
        for j in range(len(items) - 2, -1, -1):
            e = z3.If(idx == j, zbool(items[j]), e)
        return SymBool(z3.simplify(e))
    if dtype == INT:
        e = zint(items[-1])
        for j in range(len(items) - 2, -1, -1):
            e = z3.If(idx == j, zint(items[j]), e)
        return SymInt(z3.simplify(e))
    e = zreal(items[-1])
    for j in range(len(items) - 2, -1, -1):
        e = z3.If(idx == j, zreal(items[j]), e)
    return SymReal(z3.simplify(e))


def _simpl(x):
    if isinstance(x, SymInt):
        e = z3.simplify(x.e)
        return e.as_long() if z3.is_int_value(e) else SymInt(e)
    if isinstance(x, SymBool):
        e = z3.simplify(x.e)
        return True if z3.is_true(e) else (False if z3.is_false(e) else SymBool(e))
    return x


def _norm_index(i, n, what="index"):
    """concrete or symbolic scalar index -> (python int | z3 term), bounds-checked against n (int)."""
    if isinstance(i, (SymInt, SymBool)):
        ie = z3.simplify(zint(i))
        if z3.is_int_value(ie):
            i = ie.as_long()
        else:
            idx = z3.If(ie < 0, ie + n, ie)
            if not eng().decide(z3.And(idx >= 0, idx < n)):
                raise IndexError("%s is out of bounds for axis with size %d" % (what, n))
            return z3.simplify(idx)
    if isinstance(i, SymReal) or isinstance(_item(i), float):
        raise IndexError("only integers, slices (`:`), ellipsis (`...`), numpy.newaxis (`None`) and integer or "
                         "boolean arrays are valid indices")
    i = operator.index(_item(i))
    if i < -n or i >= n:
        raise IndexError("index %d is out of bounds for axis 0 with size %d" % (i, n))
    return i + n if i < 0 else i


class Arr(object):
    __array_ufunc__ = None
    __hash__ = None

    def __init__(self, buf, offs, shape, dtype, n=None, mask_prov=None):
        self.buf = buf
        self.offs = offs
        self.shape = tuple(shape)
        self.dtype = dtype
        self.n = n                  # SymInt logical length (1-D only) or None
        self.mask_prov = mask_prov  # for where()-vectors: list of z3 Bools (mask) the indices come from
        self.symrow = None          # (parent Arr, z3 row index) for a row read at a symbolic index
        self.budget = None

    # ------------------------------------------------------------------ construction
    @staticmethod
    def new(elems, shape, dtype, n=None, mask_prov=None, irange=None):
        buf = [_cast_in(x, dtype) for x in elems]
        if irange is not None and dtype == INT:
            buf = NBuf(_wrap_range(x, irange) for x in buf)
            buf.irange = irange
        return Arr(buf, list(range(len(buf))), shape, dtype, n, mask_prov)

    @property
    def irange(self):
        return getattr(self.buf, "irange", None)

    @property
    def ndim(self):
        return len(self.shape)

    @property
    def size(self):
        if self.n is not None:
            return self.n
        r = 1
        for s in self.shape:
            r *= s
        return r

    def elems(self):
        b = self.buf
        return [b[o] for o in self.offs]

    def _symx_len(self):
        if not self.shape:
            raise TypeError("len() of unsized object")
        if self.n is not None:
            return SymInt(self.n.e)
        return self.shape[0]

    def __len__(self):
        if self.n is not None:
            return eng().concretize(self.n.e)
        if not self.shape:
            raise TypeError("len() of unsized object")
        return self.shape[0]

    def fix_len(self):
        """concretise a symbolic logical length (forks); returns a plain array."""
        if self.n is None:
            return self
        k = eng().concretize(self.n.e)
        return Arr(self.buf, self.offs[:k], (k,), self.dtype)

    def copy(self):
        return Arr.new(self.elems(), self.shape, self.dtype, self.n, self.mask_prov, irange=self.irange)

    def is_concrete(self):
        return self.n is None and all(not is_sym(x) for x in self.elems())

    def to_numpy(self):
        """real numpy array (concretising every symbolic element: forks)."""
        a = self.fix_len()
        vals = []
        for x in a.elems():
            if isinstance(x, (SymInt, SymBool)):
                x = concrete_int(x)
            elif isinstance(x, SymReal):
                x = float(x)
            vals.append(x)
        return _rnp.array(vals, dtype=_NPT[a.dtype]).reshape(a.shape)

    @staticmethod
    def from_numpy(a):
        a = _rnp.asarray(a)
        if a.ndim == 0:
            return _item(a[()])
        dt = _norm_dtype(a.dtype)
        if a.ndim > 2:
            raise Inconclusive("arrays of more than 2 dimensions")
        return Arr.new([_item(x) for x in a.reshape(-1)], a.shape, dt, irange=_int_range(a.dtype))

    # ------------------------------------------------------------------ iteration / conversion
    def __iter__(self):
        a = self.fix_len()
        if a.ndim == 1:
            for o in a.offs:
                yield _out(a.buf[o], a.dtype)
        else:
            for i in range(a.shape[0]):
                yield a._row(i)

    def tolist(self):
        a = self.fix_len()
        if a.ndim == 1:
            return [_plain(a.buf[o]) for o in a.offs]
        c = a.shape[1]
        return [[_plain(a.buf[o]) for o in a.offs[i * c:(i + 1) * c]] for i in range(a.shape[0])]

    def astype(self, t):
        dt = _norm_dtype(t)
        return Arr.new(self.elems(), self.shape, dt, self.n, irange=_int_range(t))

    @property
    def T(self):
        if self.budget is not None:
            self.budget.hit()
        if self.ndim == 1:
            return self
        r, c = self.shape
        return Arr(self.buf, [self.offs[i * c + j] for j in range(c) for i in range(r)], (c, r), self.dtype)

    def reshape(self, *shape):
        if len(shape) == 1 and isinstance(shape[0], (tuple, list)):
            shape = tuple(shape[0])
        a = self.fix_len()
        total = len(a.offs)
        shape = list(shape)
        if shape.count(-1) == 1:
            rest = 1
            for s in shape:
                if s != -1:
                    rest *= s
            shape[shape.index(-1)] = total // rest if rest else 0
        p = 1
        for s in shape:
            p *= s
        if p != total or len(shape) > 2:
            raise ValueError("cannot reshape array of size %d into shape %s" % (total, tuple(shape)))
        return Arr(a.buf, a.offs, tuple(shape), a.dtype)

    def __bool__(self):
        a = self.fix_len()
        if len(a.offs) == 1:
            return bool(a.buf[a.offs[0]])
        if len(a.offs) == 0:
            return False
        raise ValueError("The truth value of an array with more than one element is ambiguous. "
                         "Use a.any() or a.all()")

    def __repr__(self):
        return "symnp.Arr(shape=%s, dtype=%s%s)" % (self.shape, self.dtype, ", symbolic length" if self.n is not None else "")

    def __str__(self):
        # str(array) as the code under test sees it: numpy's own rendering of the (concretised, forking) content, including the
        # "..." summary of long arrays; outside an exploration (messages of the harness itself) the symbolic description
        try:
            return str(self.to_numpy())
        except (Abort, Inconclusive):
            raise
        except Exception:
            return self.__repr__()

    def _symx_type(self):
        return _rnp.ndarray

    # ------------------------------------------------------------------ element-wise operators
    def _binop(self, o, op, swap=False):
        if isinstance(o, (list, tuple)):
            o = array(o)
        if isinstance(o, Arr):
            if self.ndim != o.ndim or self.shape != o.shape or (self.n is None) != (o.n is None):
                a, b = self.fix_len(), o.fix_len()
                if a.shape != b.shape:
                    return _broadcast_binop(a, b, op, swap)
            else:
                a, b = self, o
                if a.n is not None and not eng().decide(a.n.e == b.n.e):
                    raise ValueError("operands could not be broadcast together")
            ea, eb = a.elems(), b.elems()
            out, dt = [], None
            for x, y in zip(ea, eb):
                v, d = _scalar_op(op, y, x, b.dtype, a.dtype) if swap else _scalar_op(op, x, y, a.dtype, b.dtype)
                out.append(v)
                dt = d if dt is None else _join_dtype(dt, d)
            if dt is None:
                dt = _result_dtype(op, a.dtype, b.dtype)
            return Arr.new(out, a.shape, dt, a.n)
        if not core._is_num(o):
            return NotImplemented
        do = _dtype_of_scalar(o)
        o = _item(o)
        out, dt = [], None
        for x in self.elems():
            v, d = _scalar_op(op, o, x, do, self.dtype) if swap else _scalar_op(op, x, o, self.dtype, do)
            out.append(v)
            dt = d if dt is None else _join_dtype(dt, d)
        if dt is None:
            dt = _result_dtype(op, self.dtype, do)
        return Arr.new(out, self.shape, dt, self.n)

    def __add__(s, o): return s._binop(o, "add")
    def __radd__(s, o): return s._binop(o, "add", True)
    def __sub__(s, o): return s._binop(o, "sub")
    def __rsub__(s, o): return s._binop(o, "sub", True)
    def __mul__(s, o): return s._binop(o, "mul")
    def __rmul__(s, o): return s._binop(o, "mul", True)
    def __floordiv__(s, o): return s._binop(o, "floordiv")
    def __rfloordiv__(s, o): return s._binop(o, "floordiv", True)
    def __mod__(s, o): return s._binop(o, "mod")
    def __rmod__(s, o): return s._binop(o, "mod", True)
    def __truediv__(s, o): return s._binop(o, "truediv")
    def __rtruediv__(s, o): return s._binop(o, "truediv", True)
    def __pow__(s, o): return s._binop(o, "pow")
    def __rpow__(s, o): return s._binop(o, "pow", True)
    def __lt__(s, o): return s._binop(o, "lt")
    def __le__(s, o): return s._binop(o, "le")
    def __gt__(s, o): return s._binop(o, "gt")
    def __ge__(s, o): return s._binop(o, "ge")

    def __eq__(s, o):
        r = s._binop(o, "eq")
        return False if r is NotImplemented else r

    def __ne__(s, o):
        r = s._binop(o, "ne")
        return True if r is NotImplemented else r

    def __iadd__(s, o):
        r = s._binop(o, "add")
        s._assign_all(r)
        return s

    def __isub__(s, o):
        r = s._binop(o, "sub")
        s._assign_all(r)
        return s

    def __imul__(s, o):
        r = s._binop(o, "mul")
        s._assign_all(r)
        return s

    def _assign_all(self, r):
        if r.dtype == FLOAT and self.dtype != FLOAT:
            raise TypeError("Cannot cast ufunc output from dtype('float64') to dtype('%s')" % self.dtype)
        for o, v in zip(self.offs, r.elems()):
            self.buf[o] = _cast_in(v, self.dtype)

    def __and__(s, o):
        if isinstance(o, Arr) and s.dtype == BOOL and o.dtype == BOOL:
            if s.shape != o.shape:
                DELEGATED["broadcast.and"] = DELEGATED.get("broadcast.and", 0) + 1
                return _wrap(s.to_numpy() & o.to_numpy())
            return Arr.new([(SymBool(z3.And(zbool(x), zbool(y))) if (is_sym(x) or is_sym(y)) else (x and y)) for x, y in zip(s.elems(), o.elems())], s.shape, BOOL, s.n)
        return delegate("bitwise_and", s, o)

    __rand__ = __and__

    def __or__(s, o):
        if isinstance(o, Arr) and s.dtype == BOOL and o.dtype == BOOL:
            if s.shape != o.shape:
                return _wrap(s.to_numpy() | o.to_numpy())
            return Arr.new([(SymBool(z3.Or(zbool(x), zbool(y))) if (is_sym(x) or is_sym(y)) else (x or y)) for x, y in zip(s.elems(), o.elems())], s.shape, BOOL, s.n)
        return delegate("bitwise_or", s, o)

    __ror__ = __or__

    def __neg__(s):
        if s.dtype == BOOL:
            raise TypeError("The numpy boolean negative, the `-` operator, is not supported")
        return Arr.new([(-x) for x in s.elems()], s.shape, s.dtype, s.n, irange=s.irange)

    def __invert__(s):
        if s.dtype != BOOL:
            raise Inconclusive("bitwise invert on ints")
        return Arr.new([(~x if is_sym(x) else (not x)) for x in s.elems()], s.shape, BOOL, s.n)

    def __abs__(s):
        return Arr.new([abs(x) for x in s.elems()], s.shape, s.dtype, s.n, irange=s.irange)

    def __contains__(s, x):
        return bool(any_(s == x))

    # ------------------------------------------------------------------ reductions as methods
    def sum(self, axis=None):
        return sum_(self, axis=axis)

    def max(self):
        return max_(self)

    def min(self):
        return min_(self)

    def all(self, axis=None):
        if axis is not None and self.ndim == 2 and concrete_int(axis) in (1, -1):
            return Arr.new([_plain(all_(self._row(i))) for i in range(self.shape[0])], (self.shape[0],), BOOL)
        return all_(self, axis=axis)

    def any(self, axis=None):
        if axis is not None and self.ndim == 2 and concrete_int(axis) in (1, -1):
            return Arr.new([_plain(any_(self._row(i))) for i in range(self.shape[0])], (self.shape[0],), BOOL)
        return any_(self, axis=axis)

    def nonzero(self):
        return nonzero(self)

    def argsort(self):
        return argsort(self)

    def item(self):
        a = self.fix_len()
        if len(a.offs) != 1:
            raise ValueError("can only convert an array of size 1 to a Python scalar")
        return _plain(a.buf[a.offs[0]])

    def __getattr__(self, name):
        # any ndarray method / attribute that is not modelled: concretise and delegate to real numpy
        if name.startswith("_") or not hasattr(_rnp.ndarray, name):
            raise AttributeError(name)
        DELEGATED["ndarray." + name] = DELEGATED.get("ndarray." + name, 0) + 1
        real = self.to_numpy()
        target = getattr(real, name)
        if callable(target):
            def method(*a, **k):
                with _rnp.errstate(all="ignore"):
                    return _wrap(target(*[_real(x) for x in a], **{kk: _real(v) for kk, v in k.items()}))
            return method
        return _wrap(target)

    # ------------------------------------------------------------------ indexing
    def _row(self, i):
        c = self.shape[1]
        return Arr(self.buf, self.offs[i * c:(i + 1) * c], (c,), self.dtype)

    def _len1(self):
        """logical length bound check term for 1-D arrays: python int or z3 term."""
        return self.shape[0] if self.n is None else self.n.e

    def _get1(self, i):
        """1-D scalar read at concrete-or-symbolic index i."""
        cap = self.shape[0]
        if self.n is None:
            idx = _norm_index(i, cap)
            if isinstance(idx, int):
                return _out(self.buf[self.offs[idx]], self.dtype)
            return _out(_select(idx, self.elems(), self.dtype), self.dtype)
        # symbolic logical length
        ne = self.n.e
        ie = zint(i) if isinstance(i, (SymInt, SymBool)) else z3.IntVal(operator.index(_item(i)))
        idx = z3.simplify(z3.If(ie < 0, ie + ne, ie))
        if not eng().decide(z3.And(idx >= 0, idx < ne)):
            raise IndexError("index is out of bounds for axis 0 with size <symbolic>")
        if z3.is_int_value(idx):
            return _out(self.buf[self.offs[idx.as_long()]], self.dtype)
        return _out(_select(idx, self.elems(), self.dtype), self.dtype)

    def _key_kind(self, k):
        if isinstance(k, Arr):
            return "mask" if k.dtype == BOOL else "fancy"
        if isinstance(k, list):
            return "list"
        if isinstance(k, slice):
            return "slice"
        if isinstance(k, tuple):
            return "tuple"
        if type(k).__module__ == "numpy" and getattr(k, "ndim", 0) > 0:
            return "nparr"
        return "scalar"

    def __getitem__(self, k):
        try:
            return self._getitem(k)
        except (_Unsupported, Inconclusive) as ex:
            if isinstance(ex, Inconclusive) and "unsupported index" not in str(ex) and "fancy" not in str(ex) and "dimension" not in str(ex):
                raise
            DELEGATED["ndarray.__getitem__"] = DELEGATED.get("ndarray.__getitem__", 0) + 1
            with _rnp.errstate(all="ignore"):
                return _wrap(self.to_numpy()[_real_key(k)])

    def _getitem(self, k):
        kind = self._key_kind(k)
        if k is None:
            raise _Unsupported("newaxis")
        if kind == "nparr":
            k = Arr.from_numpy(k)
            kind = self._key_kind(k)
        if kind == "list":
            k = array(k)
            if k.dtype == FLOAT and len(k.offs) == 0:
                k = k.astype(INT)
            kind = "mask" if k.dtype == BOOL else "fancy"
        if self.ndim == 1:
            if kind == "scalar":
                return self._get1(k)
            if kind == "slice":
                a = self.fix_len()
                offs = a.offs[k]
                return Arr(a.buf, offs, (len(offs),), a.dtype)
            if kind == "tuple":
                if len(k) == 1:
                    return self[k[0]]
                raise _Unsupported("multi-axis key on a 1-D array (newaxis / broadcasting idiom)")
            if kind == "fancy":
                return self._fancy1(k)
            if kind == "mask":
                return self._mask1(k)
        else:
            if self.budget is not None and kind in ("scalar", "tuple"):
                self.budget.hit()
            if kind == "scalar":
                idx = _norm_index(k, self.shape[0])
                if isinstance(idx, int):
                    return self._row(idx)
                return self._symrow(idx)
            if kind == "slice":
                r, c = self.shape
                rows = list(range(r))[k]
                offs = []
                for i in rows:
                    offs += self.offs[i * c:(i + 1) * c]
                return Arr(self.buf, offs, (len(rows), c), self.dtype)
            if kind == "tuple":
                if len(k) == 1:
                    return self[k[0]]
                if len(k) != 2 or any(x is None for x in k):
                    raise _Unsupported("newaxis / more than two axes")
                i, j = k
                if isinstance(i, (Arr, list)) or (type(i).__module__ == "numpy" and getattr(i, "ndim", 0) > 0):
                    raise _Unsupported("pair of index arrays")
                if isinstance(i, slice):
                    sub = self[i]
                    jk = sub._key_kind(j)
                    if jk == "scalar":
                        r, c = sub.shape
                        jj = _norm_index(j, c)
                        if isinstance(jj, int):
                            return Arr(sub.buf, [sub.offs[a * c + jj] for a in range(r)], (r,), sub.dtype)
                        return Arr.new([_select(jj, [sub.buf[sub.offs[a * c + b]] for b in range(c)], sub.dtype)
                                        for a in range(r)], (r,), sub.dtype)
                    if jk == "slice":
                        r, c = sub.shape
                        cols = list(range(c))[j]
                        return Arr(sub.buf, [sub.offs[a * c + b] for a in range(r) for b in cols], (r, len(cols)), sub.dtype)
                    # fancy columns -> copy
                    cols = j if isinstance(j, Arr) else array(j)
                    rows = [sub._row(a)[cols] for a in range(sub.shape[0])]
                    rows = [x.fix_len() for x in rows]
                    w = rows[0].shape[0] if rows else 0
                    return Arr.new([e for x in rows for e in x.elems()], (len(rows), w), sub.dtype)
                row = self[i] if not isinstance(i, (Arr, list)) else None
                if row is None:
                    raise Inconclusive("fancy row index in a tuple key")
                if self.budget is not None:
                    self.budget.count -= 1
                return row[j]
            if kind == "fancy":
                k = k.fix_len()
                rows = [self[x] for x in k]
                c = self.shape[1]
                return Arr.new([e for x in rows for e in x.elems()], (len(rows), c), self.dtype)
            if kind == "mask":
                if k.shape == self.shape:
                    return _compress([zbool(b) for b in k.elems()], self.elems(), self.dtype, force_concrete=True)
                if k.ndim == 1:
                    k = k.fix_len()
                    if k.shape[0] != self.shape[0]:
                        raise IndexError("boolean index did not match indexed array along axis 0")
                    sel = []
                    for i, b in enumerate(k.elems()):
                        if bool(b):
                            sel.append(i)
                    c = self.shape[1]
                    return Arr.new([self.buf[self.offs[i * c + j]] for i in sel for j in range(c)], (len(sel), c), self.dtype)
        raise Inconclusive("unsupported index %r on %r" % (k, self))

    def _symrow(self, idx):
        r, c = self.shape
        cols = []
        for j in range(c):
            cols.append(_select(idx, [self.buf[self.offs[i * c + j]] for i in range(r)], self.dtype))
        a = Arr.new(cols, (c,), self.dtype)
        a.symrow = (self, idx)
        return a

    def _fancy1(self, k):
        if k.ndim != 1:
            raise _Unsupported("2-D fancy index")
        out = []
        ks = k.elems()
        if k.n is not None:
            # live slots must be in range (else IndexError); slots beyond the logical length hold
            # garbage and are clamped so that they cannot cause a spurious error
            cap = self.shape[0] if self.n is None else self.n.e
            live_ok = z3.And([z3.Implies(j < k.n.e, z3.And(zint(x) >= -cap, zint(x) < cap)) for j, x in enumerate(ks)]) \
                if ks else z3.BoolVal(True)
            if not eng().decide(live_ok):
                raise IndexError("index out of bounds for axis 0")
            ks = [SymInt(z3.If(z3.And(zint(x) >= -cap, zint(x) < cap), zint(x), 0)) if is_sym(x) or self.n is not None else x
                  for x in ks]
        for x in ks:
            v = self._get1(x)
            out.append(_plain(v))
        return Arr.new(out, k.shape, self.dtype, k.n)

    def _mask1(self, k):
        if k.ndim != 1:
            raise IndexError("too many indices for array")
        if self.n is not None or k.n is not None:
            a, kk = self.fix_len(), k.fix_len()
            return a._mask1(kk)
        if k.shape[0] != self.shape[0]:
            raise IndexError("boolean index did not match indexed array along axis 0; size of axis is %d but size of "
                             "corresponding boolean axis is %d" % (self.shape[0], k.shape[0]))
        return _compress([zbool(b) for b in k.elems()], self.elems(), self.dtype)

    # ------------------------------------------------------------------ assignment
    def _store(self, pos, v):
        if getattr(self.buf, "irange", None) is not None:
            _check_range(v, self.buf.irange)
        self.buf[self.offs[pos]] = _cast_in(v, self.dtype)
        if self.symrow is not None:
            parent, idx = self.symrow
            r, c = parent.shape
            for i in range(r):
                o = parent.offs[i * c + pos]
                parent.buf[o] = _simpl(_ite(idx == i, _cast_in(v, parent.dtype), parent.buf[o], parent.dtype))

    def _store_sym(self, idx, v):
        """a[idx] = v with z3 index idx (already bounds-checked)."""
        for p in range(len(self.offs)):
            old = self.buf[self.offs[p]]
            self._store(p, _simpl(_ite(idx == p, _cast_in(v, self.dtype), old, self.dtype)))

    def _values_for(self, v, count):
        """broadcast assigned value v to `count` slots."""
        if isinstance(v, Arr):
            v = v.fix_len()
            vals = v.elems()
            if self.irange is not None:
                vals = [_wrap_range(x, self.irange) for x in vals]
        elif isinstance(v, (list, tuple)):
            vals = array(v).elems() if len(v) else []
        else:
            return [v] * count
        if len(vals) == 1 and count != 1:
            return vals * count
        if len(vals) != count:
            raise ValueError("could not broadcast input array from shape (%d,) into shape (%d,)" % (len(vals), count))
        return vals

    def __setitem__(self, k, v):
        rng = getattr(self.buf, "irange", None)
        if rng is not None:
            # narrow integer array: scalars / Python lists are range-checked (OverflowError), arrays are cast with wrap-around
            if isinstance(v, Arr):
                vf = v.fix_len()
                v = Arr.new([_wrap_range(x, rng) for x in vf.elems()], vf.shape, vf.dtype)
            elif isinstance(v, (list, tuple)):
                for x in v:
                    for y in (x if isinstance(x, (list, tuple)) else [x]):
                        if isinstance(y, Arr):
                            raise Inconclusive("nested arrays stored into a narrow integer array")
                        _check_range(y, rng)
            else:
                _check_range(v, rng)
        try:
            return self._setitem(k, v)
        except (_Unsupported, Inconclusive) as ex:
            if isinstance(ex, Inconclusive) and "unsupported" not in str(ex) and "symbolic column" not in str(ex):
                raise
            DELEGATED["ndarray.__setitem__"] = DELEGATED.get("ndarray.__setitem__", 0) + 1
            real = self.to_numpy()
            real[_real_key(k)] = _real(v)
            a = self.fix_len()
            for o, x in zip(a.offs, real.reshape(-1)):
                self.buf[o] = _cast_in(_item(x), self.dtype)

    def _setitem(self, k, v):
        kind = self._key_kind(k)
        if kind == "nparr":
            k = Arr.from_numpy(k)
            kind = self._key_kind(k)
        if kind == "list":
            k = array(k)
            kind = "mask" if k.dtype == BOOL else "fancy"
        if self.ndim == 1:
            if self.n is not None:
                raise Inconclusive("assignment into a symbolic-length vector")
            if kind == "scalar":
                idx = _norm_index(k, self.shape[0])
                if isinstance(v, (Arr, list, tuple)):
                    vv = self._values_for(v, 1)
                    v = vv[0]
                if isinstance(idx, int):
                    self._store(idx, v)
                else:
                    self._store_sym(idx, v)
                return
            if kind == "slice":
                pos = list(range(self.shape[0]))[k]
                for p, x in zip(pos, self._values_for(v, len(pos))):
                    self._store(p, x)
                return
            if kind == "tuple" and len(k) == 1:
                self[k[0]] = v
                return
            if kind == "fancy":
                if k.n is None:
                    ks = k.elems()
                    vals = self._values_for(v, len(ks))
                    for x, val in zip(ks, vals):
                        idx = _norm_index(x, self.shape[0])
                        if isinstance(idx, int):
                            self._store(idx, val)
                        else:
                            self._store_sym(idx, val)
                    return
                # symbolic-length index vector: guarded stores
                if isinstance(v, (Arr, list, tuple)):
                    vv = v if isinstance(v, Arr) else array(v)
                    if vv.n is None:
                        if not eng().decide(k.n.e == vv.shape[0]):
                            raise ValueError("shape mismatch: value array cannot be broadcast to indexing result")
                        vals = vv.elems()
                    else:
                        if not eng().decide(k.n.e == vv.n.e):
                            raise ValueError("shape mismatch: value array cannot be broadcast to indexing result")
                        vals = vv.elems()
                    vals = list(vals) + [0] * (len(k.offs) - len(vals))
                else:
                    vals = [v] * len(k.offs)
                cap = self.shape[0]
                ks = k.elems()
                # bounds: every live index must be in range
                live_ok = z3.And([z3.Implies(j < k.n.e, z3.And(zint(x) >= -cap, zint(x) < cap)) for j, x in enumerate(ks)]) if ks else z3.BoolVal(True)
                if not eng().decide(live_ok):
                    raise IndexError("index out of bounds")
                for j, (x, val) in enumerate(zip(ks, vals)):
                    xe = zint(x)
                    idx = z3.If(xe < 0, xe + cap, xe)
                    for p in range(cap):
                        old = self.buf[self.offs[p]]
                        self._store(p, _simpl(_ite(z3.And(j < k.n.e, idx == p), _cast_in(val, self.dtype), old, self.dtype)))
                return
            if kind == "mask":
                k = k.fix_len()
                if k.shape[0] != self.shape[0]:
                    raise IndexError("boolean index did not match indexed array")
                if isinstance(v, (Arr, list, tuple)):
                    sel = [p for p, b in enumerate(k.elems()) if bool(b)]
                    for p, x in zip(sel, self._values_for(v, len(sel))):
                        self._store(p, x)
                else:
                    for p, b in enumerate(k.elems()):
                        if is_sym(b):
                            self._store(p, _simpl(_ite(zbool(b), _cast_in(v, self.dtype), self.buf[self.offs[p]], self.dtype)))
                        elif b:
                            self._store(p, v)
                return
        else:
            r, c = self.shape
            if kind == "scalar":
                idx = _norm_index(k, r)
                vals = self._values_for(v, c)
                if isinstance(idx, int):
                    for j in range(c):
                        self.buf[self.offs[idx * c + j]] = _cast_in(vals[j], self.dtype)
                else:
                    for i in range(r):
                        for j in range(c):
                            o = self.offs[i * c + j]
                            self.buf[o] = _simpl(_ite(idx == i, _cast_in(vals[j], self.dtype), self.buf[o], self.dtype))
                return
            if kind == "slice":
                rows = list(range(r))[k]
                if isinstance(v, Arr) and v.ndim == 2:
                    vv = v.fix_len()
                    if vv.shape != (len(rows), c):
                        raise ValueError("could not broadcast input array from shape %s into shape %s" % (vv.shape, (len(rows), c)))
                    for a_, i_ in enumerate(rows):
                        for j_ in range(c):
                            self.buf[self.offs[i_ * c + j_]] = _cast_in(vv.buf[vv.offs[a_ * c + j_]], self.dtype)
                    return
                if isinstance(v, (list, tuple)) and v and isinstance(v[0], (list, tuple, Arr)):
                    self[k] = array(v)
                    return
                vals = self._values_for(v, c)
                for i_ in rows:
                    for j_ in range(c):
                        self.buf[self.offs[i_ * c + j_]] = _cast_in(vals[j_], self.dtype)
                return
            if kind == "tuple" and len(k) == 2:
                i, j = k
                if isinstance(i, (Arr, list)) or (type(i).__module__ == "numpy" and getattr(i, "ndim", 0) > 0):
                    raise _Unsupported("pair of index arrays")
                if isinstance(i, slice):
                    rows = list(range(r))[i]
                    jk = self._key_kind(j)
                    if jk == "scalar":
                        jj = _norm_index(j, c)
                        if not isinstance(jj, int):
                            raise Inconclusive("symbolic column in slice assignment")
                        for a, x in zip(rows, self._values_for(v, len(rows))):
                            self.buf[self.offs[a * c + jj]] = _cast_in(x, self.dtype)
                        return
                    if jk == "slice":
                        cols = list(range(c))[j]
                        if isinstance(v, (list, tuple)) and v and isinstance(v[0], (list, tuple, Arr)):
                            v = array(v)
                        if isinstance(v, Arr) and v.ndim == 2:
                            vv = v.fix_len()
                            if vv.shape != (len(rows), len(cols)):
                                raise ValueError("could not broadcast input array from shape %s into shape %s" % (vv.shape, (len(rows), len(cols))))
                            for a_, i_ in enumerate(rows):
                                for b_, j_ in enumerate(cols):
                                    self.buf[self.offs[i_ * c + j_]] = _cast_in(vv.buf[vv.offs[a_ * len(cols) + b_]], self.dtype)
                            return
                        vals = self._values_for(v, len(cols))
                        for i_ in rows:
                            for b_, j_ in enumerate(cols):
                                self.buf[self.offs[i_ * c + j_]] = _cast_in(vals[b_], self.dtype)
                        return
                    raise Inconclusive("unsupported 2-D slice assignment")
                ii = _norm_index(i, r)
                if isinstance(ii, int):
                    self._row(ii)[j] = v
                else:
                    row = self._symrow(ii)
                    row[j] = v
                return
            if kind == "mask" and k.shape == self.shape and not isinstance(v, (Arr, list, tuple)):
                for p, b in enumerate(k.elems()):
                    o = self.offs[p]
                    if is_sym(b):
                        self.buf[o] = _simpl(_ite(zbool(b), _cast_in(v, self.dtype), self.buf[o], self.dtype))
                    elif b:
                        self.buf[o] = _cast_in(v, self.dtype)
                return
        raise Inconclusive("unsupported assignment index %r on %r" % (k, self))


def _plain(x):
    """element as a plain Python-level scalar (for tolist / internal use)."""
    if isinstance(x, SymInt):
        return SymInt(x.e, False)
    if isinstance(x, SymBool):
        return SymBool(x.e, False)
    return _item(x)


def _result_dtype(op, da, db):
    if op in _CMP:
        return BOOL
    if op == "truediv":
        return FLOAT
    return _join_dtype(da, db)


def _real_key(k):
    if isinstance(k, tuple):
        return tuple(_real_key(x) for x in k)
    if isinstance(k, (Arr, SymInt, SymBool, list)):
        return _real(k)
    return k


def _broadcast_binop(a, b, op, swap):
    # only (r,c) with (c,) and size-1 cases
    if a.ndim == 2 and b.ndim == 1 and a.shape[1] == b.shape[0]:
        rows = [a._row(i)._binop(b, op, swap) for i in range(a.shape[0])]
        return Arr.new([e for x in rows for e in x.elems()], a.shape, rows[0].dtype if rows else a.dtype)
    if b.ndim == 1 and b.shape[0] == 1:
        return a._binop(_out(b.buf[b.offs[0]], b.dtype), op, swap)
    if a.ndim == 1 and a.shape[0] == 1:
        x = _out(a.buf[a.offs[0]], a.dtype)
        return b._binop(x, op, not swap)
    # general numpy broadcasting (column x row, ...): concretise and delegate
    DELEGATED["broadcast." + op] = DELEGATED.get("broadcast." + op, 0) + 1
    f = _CMP.get(op) or _ARI[op]
    with _rnp.errstate(all="ignore"):
        return _wrap(f(b.to_numpy(), a.to_numpy()) if swap else f(a.to_numpy(), b.to_numpy()))


def _compress(mask, vals, dtype, force_concrete=False):
    """values at the set positions of mask (list of z3 Bools), in order."""
    mask = [z3.simplify(m) for m in mask]
    concrete = all(z3.is_true(m) or z3.is_false(m) for m in mask)
    if not concrete and (force_concrete or WHERE_POLICY == "concrete" or len(mask) > SYMLEN_MAX_CAP):
        mask = [z3.BoolVal(eng().decide(m)) for m in mask]
        concrete = True
    if concrete:
        sel = [v for m, v in zip(mask, vals) if z3.is_true(m)]
        return Arr.new(sel, (len(sel),), dtype)
    cap = len(mask)
    cnt = [z3.IntVal(0)]
    for m in mask:
        cnt.append(cnt[-1] + z3.If(m, 1, 0))
    elems = []
    for j in range(cap):
        # value at the j-th set bit (garbage = last value when fewer than j+1 bits are set)
        e = vals[cap - 1]
        for i in range(cap - 2, j - 1, -1):
            e = _ite(z3.And(mask[i], cnt[i] == j), vals[i], e, dtype)
        elems.append(_simpl(e))
    return Arr.new(elems, (cap,), dtype, SymInt(z3.simplify(cnt[-1])))


# ----------------------------------------------------------------------------- module functions
def array(x, dtype=None):
    dt = _norm_dtype(dtype)
    if isinstance(x, Arr):
        r = x.copy()
        if dtype is not None and _int_range(dtype) != r.irange:
            return r.astype(dtype)
        return r.astype(dt) if dt and dt != r.dtype else r
    if type(x).__module__ == "numpy":
        r = Arr.from_numpy(x)
        if isinstance(r, Arr) and dt and dt != r.dtype:
            r = r.astype(dt)
        return r
    if isinstance(x, (list, tuple)):
        items = list(x)
        if items and all(isinstance(y, (list, tuple, Arr)) for y in items):
            rows = [y.fix_len().elems() if isinstance(y, Arr) else list(y) for y in items]
            if any(isinstance(e, (list, tuple, Arr)) for r_ in rows for e in r_):
                raise Inconclusive("arrays of more than 2 dimensions")
            w = len(rows[0])
            if any(len(r_) != w for r_ in rows):
                raise ValueError("setting an array element with a sequence. The requested array has an inhomogeneous shape")
            flat = [e for r_ in rows for e in r_]
            d = dt or _infer_dtype(flat, [y.dtype for y in items if isinstance(y, Arr)])
            return Arr.new(flat, (len(rows), w), d, irange=_int_range(dtype))
        if any(isinstance(y, (list, tuple, Arr)) for y in items):
            raise Inconclusive("ragged array")
        d = dt or _infer_dtype(items)
        return Arr.new(items, (len(items),), d, irange=_int_range(dtype))
    if core._is_num(x):
        return x
    return delegate("array", x, dtype=dtype)


def _infer_dtype(items, hints=()):
    if not items:
        return hints[0] if hints else FLOAT
    d = BOOL
    for h in hints:
        d = _join_dtype(d, h)
    for y in items:
        dy = _dtype_of_scalar(y)
        if dy is None:
            raise Inconclusive("array element of type %s" % type(y).__name__)
        d = _join_dtype(d, dy)
    return d


def _shape(shape):
    if isinstance(shape, (tuple, list)):
        return tuple(concrete_int(s) for s in shape)
    return (concrete_int(shape),)


def _filled(shape, dtype, v, irange=None):
    shape = _shape(shape)
    if len(shape) > 2:
        raise Inconclusive("arrays of more than 2 dimensions")
    n = 1
    for s in shape:
        if s < 0:
            raise ValueError("negative dimensions are not allowed")
        n *= s
    dt = _norm_dtype(dtype) or FLOAT
    return Arr.new([v] * n, shape, dt, irange=irange if irange is not None else _int_range(dtype))


def zeros(shape, dtype=float):
    return _filled(shape, dtype, 0)


def ones(shape, dtype=float):
    return _filled(shape, dtype, 1)


def full(shape, fill_value, dtype=None):
    if dtype is None:
        dtype = _dtype_of_scalar(_item(fill_value))
    return _filled(shape, dtype, fill_value)


def zeros_like(a, dtype=None):
    if not isinstance(a, Arr):
        a = array(a)
    return _filled(a.fix_len().shape, dtype or a.dtype, 0, irange=None if dtype else a.irange)


def ones_like(a, dtype=None):
    if not isinstance(a, Arr):
        a = array(a)
    return _filled(a.fix_len().shape, dtype or a.dtype, 1, irange=None if dtype else a.irange)


def full_like(a, fill_value, dtype=None):
    if not isinstance(a, Arr):
        a = array(a)
    return _filled(a.fix_len().shape, dtype or a.dtype, fill_value, irange=None if dtype else a.irange)


def where(cond, *rest):
    if not isinstance(cond, Arr):
        cond = array(cond)
    if rest:
        if len(rest) != 2:
            raise ValueError("either both or neither of x and y should be given")
        try:
            return _where3(cond, rest[0], rest[1])
        except _Unsupported:
            return delegate("where", cond, rest[0], rest[1])
    if cond.ndim == 1:
        bits = [zbool(b) for b in cond.elems()]
        if cond.n is not None:
            bits = [z3.And(b, i < cond.n.e) for i, b in enumerate(bits)]
        r = _compress(bits, list(range(len(bits))), INT)
        if r.n is not None:
            r.mask_prov = bits
        return (r,)
    r, c = cond.shape
    rows, cols = [], []
    for p, b in enumerate(cond.elems()):
        if bool(b):
            rows.append(p // c)
            cols.append(p % c)
    return (Arr.new(rows, (len(rows),), INT), Arr.new(cols, (len(cols),), INT))


def _where3(cond, x, y):
    cond = cond.fix_len()
    n = len(cond.offs)

    def operand(v):
        if isinstance(v, (list, tuple)):
            v = array(v)
        if isinstance(v, Arr):
            v = v.fix_len()
            if v.shape != cond.shape:
                if len(v.offs) == 1:
                    return [v.buf[v.offs[0]]] * n, v.dtype
                raise _Unsupported("where with broadcasting")
            return v.elems(), v.dtype
        return [_item(v)] * n, _dtype_of_scalar(v)
    xs, dx = operand(x)
    ys, dy = operand(y)
    dt = _join_dtype(dx, dy)
    out = []
    for c, a, b in zip(cond.elems(), xs, ys):
        if is_sym(c):
            out.append(_simpl(_ite(zbool(c), _cast_in(a, dt), _cast_in(b, dt), dt)))
        else:
            out.append(a if c else b)
    return Arr.new(out, cond.shape, dt)


def _live(a):
    """(elements, guards) where guards[i] is a z3 Bool saying slot i is inside the logical length."""
    es = a.elems()
    if a.n is None:
        return es, None
    return es, [i < a.n.e for i in range(len(es))]


def sum_(a, axis=None):
    if isinstance(a, (list, tuple)):
        a = array(a)
    if not isinstance(a, Arr):
        return a
    if a.ndim == 2 and axis is not None:
        axis = concrete_int(axis)
        if axis in (1, -1):
            return Arr.new([_plain(sum_(a._row(i))) for i in range(a.shape[0])], (a.shape[0],), INT if a.dtype != FLOAT else FLOAT)
        if axis == 0:
            return sum_(a.T, axis=1)
        raise ValueError("axis out of bounds")
    es, g = _live(a)
    if a.mask_prov is not None and a.n is not None:
        # indices of set mask bits: sum = sum_i ite(mask_i, i, 0)   (definition of where)
        return SymInt(z3.simplify(z3.Sum([z3.If(m, i, 0) for i, m in enumerate(a.mask_prov)])), True)
    if a.dtype == FLOAT:
        if all(not is_sym(x) for x in es) and g is None:
            return _rnp.float64(_rnp.sum(_rnp.array(es, dtype=float)))
        t = z3.RealVal(0)
        for i, x in enumerate(es):
            t = t + (zreal(x) if g is None else z3.If(g[i], zreal(x), 0))
        return SymReal(t)
    if all(not is_sym(x) for x in es) and g is None:
        return _rnp.int64(int(_rnp.sum(_rnp.array([int(x) for x in es], dtype=_rnp.int64))))
    t = z3.IntVal(0)
    for i, x in enumerate(es):
        t = t + (zint(x) if g is None else z3.If(g[i], zint(x), 0))
    return SymInt(z3.simplify(core.wrap64(t)), True)


def _extreme(a, better, name):
    if isinstance(a, (list, tuple)):
        a = array(a)
    if not isinstance(a, Arr):
        return a
    es, g = _live(a)
    if g is not None:
        if not eng().decide(a.n.e > 0):
            raise ValueError("zero-size array to reduction operation %s which has no identity" % name)
    elif not es:
        raise ValueError("zero-size array to reduction operation %s which has no identity" % name)
    if all(not is_sym(x) for x in es) and g is None:
        f = _rnp.max if name == "maximum" else _rnp.min
        return _NPT[a.dtype](f(_rnp.array(es, dtype=_NPT[a.dtype])))
    cur = es[0]
    for i in range(1, len(es)):
        x = es[i]
        if a.dtype == FLOAT:
            c = better(zreal(x), zreal(cur))
        elif a.dtype == BOOL:
            c = better(zint(x), zint(cur))
        else:
            c = better(zint(x), zint(cur))
        if g is not None:
            c = z3.And(g[i], c)
        cur = _ite(c, x, cur, a.dtype)
    return _out(_simpl(cur), a.dtype)


def max_(a, axis=None):
    if axis is not None:
        return delegate("max", a, axis=axis)
    return _extreme(a, lambda x, y: x > y, "maximum")


def min_(a, axis=None):
    if axis is not None:
        return delegate("min", a, axis=axis)
    return _extreme(a, lambda x, y: x < y, "minimum")


def argmax(a):
    if not isinstance(a, Arr):
        a = array(a)
    a = a.fix_len()
    es = a.elems()
    if not es:
        raise ValueError("attempt to get argmax of an empty sequence")
    if all(not is_sym(x) for x in es):
        return _rnp.int64(int(_rnp.argmax(_rnp.array(es, dtype=_NPT[a.dtype]))))
    cur, idx = es[0], z3.IntVal(0)
    for i in range(1, len(es)):
        c = (zreal(es[i]) > zreal(cur)) if a.dtype == FLOAT else (zint(es[i]) > zint(cur))
        cur = _ite(c, es[i], cur, a.dtype)
        idx = z3.If(c, i, idx)
    return SymInt(z3.simplify(idx), True)


def argsort(a):
    if not isinstance(a, Arr):
        a = array(a)
    if a.ndim != 1:
        return delegate("argsort", a)
    es, g = _live(a)
    cap = len(es)
    if all(not is_sym(x) for x in es) and g is None:
        return Arr.from_numpy(_rnp.argsort(_rnp.array(es, dtype=_NPT[a.dtype]), kind="stable"))
    if a.dtype == FLOAT:
        zs = [zreal(x) for x in es]
    else:
        zs = [zint(x) for x in es]
    rank = []
    for i in range(cap):
        r = z3.IntVal(0)
        for j in range(cap):
            if j == i:
                continue
            lt = z3.Or(zs[j] < zs[i], z3.And(zs[j] == zs[i], j < i)) if j < i else (zs[j] < zs[i])
            if g is not None:
                lt = z3.And(g[j], lt)
            r = r + z3.If(lt, 1, 0)
        rank.append(r)
    out = []
    for p in range(cap):
        e = z3.IntVal(cap - 1)
        for i in range(cap - 2, -1, -1):
            c = rank[i] == p
            if g is not None:
                c = z3.And(g[i], c)
            e = z3.If(c, i, e)
        # the last slot also needs its guard only for garbage positions: harmless
        out.append(SymInt(z3.simplify(e)))
    return Arr.new(out, (cap,), INT, a.n)


def all_(a, axis=None):
    if axis is not None:
        return delegate("all", a, axis=axis)
    if not isinstance(a, Arr):
        return bool(a) if not is_sym(a) else SymBool(zbool(a))
    es, g = _live(a)
    ts = [zbool(x) if g is None else z3.Implies(g[i], zbool(x)) for i, x in enumerate(es)]
    e = z3.simplify(z3.And(ts)) if ts else z3.BoolVal(True)
    if z3.is_true(e):
        return _rnp.bool_(True)
    if z3.is_false(e):
        return _rnp.bool_(False)
    return SymBool(e, True)


def any_(a, axis=None):
    if axis is not None:
        return delegate("any", a, axis=axis)
    if not isinstance(a, Arr):
        return bool(a) if not is_sym(a) else SymBool(zbool(a))
    es, g = _live(a)
    ts = [zbool(x) if g is None else z3.And(g[i], zbool(x)) for i, x in enumerate(es)]
    e = z3.simplify(z3.Or(ts)) if ts else z3.BoolVal(False)
    if z3.is_true(e):
        return _rnp.bool_(True)
    if z3.is_false(e):
        return _rnp.bool_(False)
    return SymBool(e, True)


def abs_(a):
    if isinstance(a, Arr):
        return a.__abs__()
    return abs(a)


def arange(*a, **k):
    return delegate("arange", *a, **k)


def flatnonzero(x):
    if not isinstance(x, Arr):
        x = array(x)
    if x.ndim != 1:
        x = x.reshape(-1)
    return where(x.astype(BOOL) if x.dtype != BOOL else x)[0]


def nonzero(x):
    if not isinstance(x, Arr):
        x = array(x)
    return where(x.astype(BOOL) if x.dtype != BOOL else x)


def count_nonzero(x, axis=None):
    if axis is not None:
        return delegate("count_nonzero", x, axis=axis)
    if not isinstance(x, Arr):
        x = array(x)
    return sum_(x.astype(BOOL) if x.dtype != BOOL else x)


def dot(a, b):
    if not isinstance(a, Arr):
        a = array(a)
    if not isinstance(b, Arr):
        b = array(b)
    if a.ndim == 1 and b.ndim == 1:
        a, b = a.fix_len(), b.fix_len()
        if a.shape != b.shape:
            raise ValueError("shapes %s and %s not aligned" % (a.shape, b.shape))
        return sum_(a * b)
    return delegate("dot", a, b)


def diff(a, n=1):
    if not isinstance(a, Arr):
        a = array(a)
    if a.ndim != 1 or concrete_int(n) != 1:
        return delegate("diff", a, n)
    a = a.fix_len()
    if a.shape[0] < 2:
        return Arr.new([], (0,), a.dtype if a.dtype != BOOL else BOOL)
    return a[1:] - a[:-1] if a.dtype != BOOL else (a[1:] != a[:-1])


def cumsum(a, axis=None):
    if not isinstance(a, Arr):
        a = array(a)
    if a.ndim != 1 or axis not in (None, 0, -1):
        return delegate("cumsum", a, axis=axis)
    a = a.fix_len()
    out, t = [], 0
    for x in a.elems():
        t = t + (x if a.dtype != BOOL else (SymInt(zint(x)) if is_sym(x) else int(x)))
        out.append(t)
    return Arr.new(out, (len(out),), INT if a.dtype != FLOAT else FLOAT)


def sign(a):
    if isinstance(a, Arr):
        if a.dtype == FLOAT:
            return delegate("sign", a)
        return Arr.new([(SymInt(z3.If(zint(x) > 0, 1, z3.If(zint(x) < 0, -1, 0))) if is_sym(x) else (x > 0) - (x < 0)) for x in a.elems()], a.shape, INT, a.n)
    if is_sym(a):
        return SymInt(z3.If(zint(a) > 0, 1, z3.If(zint(a) < 0, -1, 0)), True)
    return delegate("sign", a)


def clip(a, lo, hi):
    if isinstance(a, Arr) and a.dtype == INT and not is_sym(lo) and not is_sym(hi) and lo is not None and hi is not None:
        lo_, hi_ = int(_item(lo)), int(_item(hi))
        return Arr.new([(SymInt(z3.If(zint(x) < lo_, lo_, z3.If(zint(x) > hi_, hi_, zint(x)))) if is_sym(x) else min(max(x, lo_), hi_)) for x in a.elems()], a.shape, INT, a.n)
    return delegate("clip", a, lo, hi)


def isin(a, test):
    t = test.fix_len().elems() if isinstance(test, Arr) else list(test)
    if any(is_sym(x) for x in t):
        return delegate("isin", a, test)
    if isinstance(a, Arr):
        return Arr.new([(SymBool(z3.Or([zint(x) == int(_item(v)) for v in t]) if t else z3.BoolVal(False)) if is_sym(x) else (x in [_item(v) for v in t])) for x in a.elems()], a.shape, BOOL, a.n)
    if is_sym(a):
        return SymBool(z3.Or([zint(a) == int(_item(v)) for v in t]) if t else z3.BoolVal(False), True)
    return delegate("isin", a, test)


def array_equal(a, b):
    if not isinstance(a, Arr):
        a = array(a)
    if not isinstance(b, Arr):
        b = array(b)
    a, b = a.fix_len(), b.fix_len()
    if a.shape != b.shape:
        return False
    r = all_(a == b)
    return r


def maximum(a, b):
    return _elementwise2(a, b, lambda x, y: x >= y)


def minimum(a, b):
    return _elementwise2(a, b, lambda x, y: x <= y)


def _elementwise2(a, b, pick_first):
    if isinstance(a, Arr) or isinstance(b, Arr):
        A = a if isinstance(a, Arr) else None
        B = b if isinstance(b, Arr) else None
        base = A if A is not None else B
        xs = A.elems() if A is not None else [_item(a)] * len(base.offs)
        ys = B.elems() if B is not None else [_item(b)] * len(base.offs)
        dt = _join_dtype(A.dtype if A is not None else _dtype_of_scalar(a), B.dtype if B is not None else _dtype_of_scalar(b))
        out = []
        for x, y in zip(xs, ys):
            c = pick_first(x, y)
            out.append(_simpl(_ite(zbool(c), x, y, dt)) if is_sym(c) else (x if c else y))
        return Arr.new(out, base.shape, dt, base.n)
    c = pick_first(a, b)
    if is_sym(c):
        return a if bool(c) else b
    return a if c else b


class _AddUfunc(object):
    """numpy.add: callable, with .at (unbuffered in-place accumulation) and .reduce"""

    def __call__(self, a, b):
        return a + b

    def at(self, arr, idx, vals):
        if not isinstance(arr, Arr) or arr.ndim != 1:
            raise Inconclusive("add.at on a non 1-D array")
        idx = idx if isinstance(idx, Arr) else array(idx)
        idx = idx.fix_len()
        vs = arr._values_for(vals, len(idx.offs))
        for i, v in zip(idx.elems(), vs):
            arr[i] = arr[i] + v

    def reduce(self, a, axis=0):
        return sum_(a, axis=axis if isinstance(a, Arr) and a.ndim == 2 else None)


def _real(x):
    """convert shim values to real numpy / Python values (concretising)."""
    if isinstance(x, Arr):
        return x.to_numpy()
    if isinstance(x, (SymInt, SymBool)):
        v = concrete_int(x)
        return _rnp.int64(v) if x.np else v
    if isinstance(x, SymReal):
        return float(x)
    if isinstance(x, list):
        return [_real(y) for y in x]
    if isinstance(x, tuple):
        return tuple(_real(y) for y in x)
    if isinstance(x, strs.SStr):
        return x.concretize()
    if isinstance(x, dict):
        return {_real(k): _real(v) for k, v in x.items()}
    return x


def _wrap(r):
    if isinstance(r, _rnp.ndarray):
        if r.dtype.kind in "biuf" and r.ndim <= 2:
            return Arr.from_numpy(r)
        return r
    if isinstance(r, tuple):
        return tuple(_wrap(x) for x in r)
    return r


DELEGATED = {}


def delegate(name, *a, **k):
    """concretise-and-delegate: call real numpy on concretised operands."""
    DELEGATED[name] = DELEGATED.get(name, 0) + 1
    f = getattr(_rnp, name)
    with _rnp.errstate(all="ignore"):
        r = f(*[_real(x) for x in a], **{kk: _real(v) for kk, v in k.items()})
    return _wrap(r)


def unique(a, *x, **k):
    return delegate("unique", a, *x, **k)


def intersect1d(a, b, *x, **k):
    return delegate("intersect1d", a, b, *x, **k)


def union1d(a, b):
    return delegate("union1d", a, b)


def median(a, *x, **k):
    if isinstance(a, list) and any(isinstance(y, SymReal) for y in a) or isinstance(a, Arr) and not a.is_concrete():
        vals = a if isinstance(a, list) else a.fix_len().elems()
        return _sym_median(vals)
    return delegate("median", a, *x, **k)


def _sym_median(vals):
    n = len(vals)
    zs = [zreal(v) for v in vals]
    # rank network, then pick the middle element(s)
    def kth(kk):
        out = zs[-1]
        for i in range(n - 1, -1, -1):
            r = z3.Sum([z3.If(z3.Or(zs[j] < zs[i], z3.And(zs[j] == zs[i], j < i)), 1, 0) for j in range(n) if j != i]) if n > 1 else z3.IntVal(0)
            out = z3.If(r == kk, zs[i], out)
        return out
    if n % 2:
        return SymReal(kth(n // 2))
    return SymReal((kth(n // 2 - 1) + kth(n // 2)) / 2)


LOG2 = z3.Function("log2", z3.RealSort(), z3.RealSort())
LOGE = z3.Function("ln", z3.RealSort(), z3.RealSort())


LOG_ARGS = []


def log2(x):
    if is_sym(x):
        LOG_ARGS.append(x)
        return SymReal(LOG2(zreal(x)))
    return delegate("log2", x)


def log(x):
    if is_sym(x):
        return SymReal(LOGE(zreal(x)))
    return delegate("log", x)


class RealRandom(object):
    """numpy.random passthrough (concrete mode / conformance tests)."""

    def __init__(self):
        self.calls = []

    def seed(self, s=None):
        self.calls.append(("seed", s))
        _rnp.random.seed(_real(s))

    def shuffle(self, a):
        self.calls.append(("shuffle", len(a)))
        if isinstance(a, Arr):
            r = a.to_numpy()
            _rnp.random.shuffle(r)
            for p, v in enumerate(r.reshape(-1)):
                a._store(p, _item(v))
        else:
            _rnp.random.shuffle(a)

    def random(self, size=None):
        self.calls.append(("random", size))
        return _wrap(_rnp.random.random(size=_real(size)))


class SymRandom(object):
    """nondeterministic stub of numpy.random: shuffle applies an arbitrary permutation, random
    returns arbitrary reals in [0, 1); every call is logged."""

    def __init__(self):
        self.calls = []
        self.fresh = []

    def seed(self, s=None):
        self.calls.append(("seed", _plain(s) if not isinstance(s, type(None)) else None))

    def shuffle(self, a):
        if not isinstance(a, Arr) or a.ndim != 1:
            raise Inconclusive("shuffle of a non 1-D array")
        a0 = a.fix_len()
        n = a0.shape[0]
        self.calls.append(("shuffle", n, id(a0.buf), tuple(a0.offs)))
        e = eng()
        perm = [e.fresh("perm") for _ in range(n)]
        self.fresh.append(perm)
        for p in perm:
            e.assume(z3.And(p >= 0, p < n))
        if n > 1:
            e.assume(z3.Distinct(*perm))
        old = a0.elems()
        for i in range(n):
            a0._store(i, _select(perm[i], old, a0.dtype))

    def random(self, size=None):
        shape = _shape(size) if size is not None else ()
        n = 1
        for s in shape:
            n *= s
        e = eng()
        vals = []
        for _ in range(n):
            v = e.fresh("rnd", "real")
            e.assume(z3.And(v >= 0, v < 1))
            vals.append(SymReal(v))
        self.calls.append(("random", shape))
        self.fresh.append(vals)
        if not shape:
            return vals[0]
        return Arr.new(vals, shape, FLOAT)


def make_module(random_impl=None):
    """the object that `import numpy` / `from numpy import ...` resolves to inside loaded modules."""
    m = types.ModuleType("numpy")
    m.__dict__.update(dict(
        array=array, asarray=array, diff=diff, cumsum=cumsum, sign=sign, clip=clip, isin=isin, array_equal=array_equal, maximum=maximum, minimum=minimum,
        add=_AddUfunc(), arange=arange, dot=dot, flatnonzero=flatnonzero, nonzero=nonzero, count_nonzero=count_nonzero, zeros=zeros, ones=ones, zeros_like=zeros_like, ones_like=ones_like, full=full, full_like=full_like, where=where, sum=sum_, max=max_,
        min=min_, amax=max_, amin=min_, argmax=argmax, argsort=argsort, all=all_, any=any_, abs=abs_, absolute=abs_,
        unique=unique, intersect1d=intersect1d, union1d=union1d, median=median, log=log, log2=log2,
        ndarray=Arr, int64=_rnp.int64, float64=_rnp.float64, bool_=_rnp.bool_, pi=_rnp.pi, e=_rnp.e, inf=_rnp.inf,
        nan=_rnp.nan,
    ))
    m.random = random_impl if random_impl is not None else RealRandom()

    def __getattr__(name):
        if not hasattr(_rnp, name):
            raise AttributeError(name)
        target = getattr(_rnp, name)
        if callable(target) and not isinstance(target, type):
            return lambda *a, **k: delegate(name, *a, **k)
        return target
    m.__getattr__ = __getattr__
    return m
