"""Call histories for C20 (z3-free: imported both by the symbolic harness and by the concrete replay).

A scenario is a function steps(env, A) -> list of (label, function name, args, kwargs) over the shared objects in
`env` (a dict name -> array / list / str / int / filter / dict).  `A` converts a nested list to the array type of the
stack the scenario runs on (numpy.array or the symbolic shim's array)."""

GC2 = [[-1, -1, -1, -1], [4, -1, -1, 7], [8, -1, -1, 11], [-1, -1, -1, -1], [-1, 1, 2, -1], [-1, -1, -1, -1], [-1, -1, -1, -1], [-1, 13, 14, -1],
       [-1, 1, 2, -1], [-1, -1, -1, -1], [-1, -1, -1, -1], [-1, 13, 14, -1], [-1, -1, -1, -1], [4, -1, -1, 7], [8, -1, -1, 11], [-1, -1, -1, -1]]
MIXED1 = [[0, 1, -1, 3], [-1, 1, 2, -1], [0, -1, -1, 3], [0, 1, 2, 3]]
GC2D = [list(r) for r in GC2]
GC2D[1][1], GC2D[7][0], GC2D[14][2] = 5, 12, 10      # the GC-balanced graph plus three arcs into dead-end vertices


def s_coding(env):
    acc, msg, tab, start = env["acc"], env["msg"], env["table"], env["start"]
    L = env["L"]
    return [
        ("enc", "encode", (msg, acc, start), {}),
        ("enc-fast", "encode", (msg, acc, start), {"is_faster": True}),
        ("enc-tab", "encode", (msg, acc, start), {"shuffles": tab}),
        ("enc-vt", "encode", (msg, acc, start), {"vt_length": 2}),
        ("dec", "decode", (env["strand"], L, acc, start), {}),
        ("dec-tab", "decode", (env["strand"], L, acc, start), {"shuffles": tab}),
        ("vt", "set_vt", (env["strand"], 3), {}),
        ("enc-again", "encode", (msg, acc, start), {}),
        ("enc-path", "encode", (msg, acc, start), {"need_path": True}),
        ("b2n", "bit_to_number", (env["bits_list"],), {}),
        ("b2n-int", "bit_to_number", (env["bits_list"],), {"is_string": False}),
    ]


def s_generation(env):
    mask, k = env["mask"], env["k"]
    return [
        ("valid", "connect_valid_graph", (k, mask), {}),
        ("coding2", "connect_coding_graph", (k, mask, 2), {}),
        ("coding1", "connect_coding_graph", (k, mask, 1), {}),
        ("valid-again", "connect_valid_graph", (k, mask), {}),
        ("coding2-again", "connect_coding_graph", (k, mask, 2), {}),
        ("find", "find_vertices", (k, env["filter"]), {}),
        ("find-again", "find_vertices", (k, env["filter"]), {}),
    ]


def s_graph(env):
    acc, lm, k = env["acc"], env["lm"], env["k"]
    return [
        ("a2l", "accessor_to_latter_map", (acc,), {}),
        ("a2m", "accessor_to_adjacency_matrix", (acc,), {}),
        ("verts", "obtain_vertices", (acc,), {}),
        ("leaf-a", "obtain_leaf_vertices", (env["root"], 2), {"accessor": acc}),
        ("leaf-l", "obtain_leaf_vertices", (env["root"], 2), {"latter_map": lm}),
        ("cap", "approximate_capacity", (acc,), {"repeats": 1}),
        ("cap-process", "approximate_capacity", (acc,), {"repeats": 1, "process": True}),
        ("scores", "calculate_intersection_score", (lm, k), {}),
        ("scores-ins", "calculate_intersection_score", (lm, k, True, False), {}),
        ("l2a", "latter_map_to_accessor", (lm, k), {}),
        ("l2a-t2", "latter_map_to_accessor", (lm, k), {"threshold": 2}),
        ("useless", "remove_useless", (lm, 2), {}),
        ("cap-again", "approximate_capacity", (acc,), {"repeats": 1}),
        ("complete", "get_complete_accessor", (k,), {}),
        ("TRIM-LAST-RESULT", None, (), {}),
        ("complete-again", "get_complete_accessor", (k,), {}),
        ("formers", "obtain_formers", (env["root"], k), {}),
        ("latters", "obtain_latters", (env["root"], k), {}),
    ]


def s_repair(env):
    acc, s, start, k = env["acc"], env["strand"], env["start"], env["k"]
    return [
        ("repair", "repair_dna", (s, acc, start, k), {"has_indel": True}),
        ("repair-noindel", "repair_dna", (s, acc, start, k), {"has_indel": False}),
        ("repair-vt", "repair_dna", (s, acc, start, k), {"has_indel": True, "vt_check": "AC"}),
        ("repair-again", "repair_dna", (s, acc, start, k), {"has_indel": True}),
        ("d2n", "dna_to_number", (s,), {}),
        ("d2n-int", "dna_to_number", (s,), {"is_string": False}),
    ]


def s_random(env):
    acc, k = env["acc"], env["k"]
    out = []
    for seed in env["seeds"]:
        out.append(("shuffles-%s" % seed, "create_random_shuffles", (k, seed), {}))
        out.append(("DRAW", None, (), {}))
        out.append(("shuffles-%s-again" % seed, "create_random_shuffles", (k, seed), {}))
    out.append(("SEED-5", None, (), {}))
    out.append(("cap-r3", "approximate_capacity", (acc,), {"repeats": 3}))
    out.append(("SEED-5", None, (), {}))
    out.append(("cap-r3-again", "approximate_capacity", (acc,), {"repeats": 3}))
    return out


def s_verbose(env):
    acc, msg, k, lm, mask = env["acc"], env["msg"], env["k"], env["lm"], env["mask"]
    calls = [
        ("encode", (msg, acc, env["start"]), {}),
        ("encode", (msg, acc, env["start"]), {"is_faster": True}),
        ("decode", (env["strand"], len(env["bits_list"]), acc, env["start"]), {}),
        ("bit_to_number", (env["bits_list"],), {}),
        ("find_vertices", (k, env["filter"]), {}),
        ("connect_valid_graph", (k, mask), {}),
        ("connect_coding_graph", (k, mask, 1), {}),
        ("connect_coding_graph", (k, mask, 2), {}),
        ("create_random_shuffles", (k, 3), {}),
        ("approximate_capacity", (acc,), {"repeats": 1}),
        ("get_complete_accessor", (k,), {}),
        ("accessor_to_latter_map", (acc,), {}),
        ("accessor_to_adjacency_matrix", (acc,), {}),
        ("latter_map_to_accessor", (lm, k), {}),
        ("latter_map_to_accessor", (lm, k), {"threshold": 2}),
        ("remove_useless", (lm, 1), {}),
        ("calculate_intersection_score", (lm, k), {}),
    ]
    out = []
    for i, (fn, a, kw) in enumerate(calls):
        out.append(("quiet-%d" % i, fn, a, dict(kw, verbose=False)))
        out.append(("verbose-%d" % i, fn, a, dict(kw, verbose=True)))
    out.append(("SEED-5", None, (), {}))
    out.append(("quiet-cap2", "approximate_capacity", (acc,), {"repeats": 2, "verbose": False}))
    out.append(("SEED-5", None, (), {}))
    out.append(("verbose-cap2", "approximate_capacity", (acc,), {"repeats": 2, "verbose": True}))
    return out


SCENARIOS = {"coding": s_coding, "generation": s_generation, "graph": s_graph, "repair": s_repair, "random": s_random, "verbose": s_verbose}


def s_variation(env):
    """the same functions called with arguments that differ in ONE component (graph of the same shape, filter with other
    motifs, other observed length, other keyword spelling), with in-place edits of earlier results / shared arguments in
    between: exposes caches with incomplete keys, results handed out without a copy, lazily rewritten arguments."""
    accA, accB, msg, start = env["acc"], env["acc_b"], env["msg"], env["start"]
    fA, fB, k = env["filter"], env["filter_b"], env["k"]
    L = len(env["bits_list"])
    steps = [
        ("encA", "encode", (msg, accA, start), {}),
        ("encB", "encode", (msg, accB, start), {}),
        ("encA2", "encode", (msg, accA, start), {}),
        ("decA", "decode", (env["strand"], L, accA, start), {}),
        ("decB", "decode", (env["strand"], L, accB, start), {}),
        ("decA-fast", "decode", (env["strand"], L, accA, start), {"is_faster": True}),
        ("decB-fast", "decode", (env["strand"], L, accB, start), {"is_faster": True}),
        ("repA", "repair_dna", (env["strand"], accA, start, k), {"has_indel": True}),
        ("repB", "repair_dna", (env["strand"], accB, start, k), {"has_indel": True}),
        ("capA", "approximate_capacity", (accA,), {"repeats": 1}),
        ("capB", "approximate_capacity", (accB,), {"repeats": 1}),
        ("SEED-5", None, (), {}),
        ("capA-r2", "approximate_capacity", (accA,), {"repeats": 2}),
        ("SEED-5", None, (), {}),
        ("capB-r2", "approximate_capacity", (accB,), {"repeats": 2}),
        ("findA", "find_vertices", (k, fA), {}),
        ("findB", "find_vertices", (k, fB), {}),
        ("findA2", "find_vertices", (k, fA), {}),
        ("validA", "LocalBioFilter.valid", (fA, env["probe"]), {}),
        ("validB", "LocalBioFilter.valid", (fB, env["probe"]), {}),
        ("validA-all", "LocalBioFilter.valid", (fA, env["probe"]), {"only_last": False}),
        ("validW-before", "LocalBioFilter.valid", (env["filter_w"], "AAAT" + env["probe"]), {"only_last": False}),
        ("findW", "find_vertices", (k, env["filter_w"]), {}),
        ("validW-after", "LocalBioFilter.valid", (env["filter_w"], "AAAT" + env["probe"]), {"only_last": False}),
        ("RECONF-FILTER-A", None, (), {}),
        ("findA-reconf", "find_vertices", (k, fA), {}),
        ("validA-reconf", "LocalBioFilter.valid", (fA, env["probe"]), {}),
        ("gen-k", "connect_coding_graph", (k, env["mask"], 1), {}),
        ("gen-k3", "connect_coding_graph", (3, env["mask3"], 1), {}),
        ("gen-k-again", "connect_coding_graph", (k, env["mask"], 1), {}),
        ("gen-k1", "connect_coding_graph", (1, env["mask1"], 1), {}),
        ("vg-k3", "connect_valid_graph", (3, env["mask3"]), {}),
        ("vg-k", "connect_valid_graph", (k, env["mask"]), {}),
        ("shuf-a", "create_random_shuffles", (k, 11), {}),
        ("KEEP-LAST", None, (), {}),
        ("shuf-b", "create_random_shuffles", (k, 11), {}),
        ("CHECK-KEPT", None, (), {}),
        ("shuf-k3", "create_random_shuffles", (3, 11), {}),
        ("comp-pos", "get_complete_accessor", (k,), {}),
        ("TRIM-LAST-RESULT", None, (), {}),
        ("comp-kw", "get_complete_accessor", (), {"observed_length": k}),
        ("TRIM-LAST-RESULT", None, (), {}),
        ("comp-kw2", "get_complete_accessor", (), {"observed_length": k, "verbose": False}),
        ("comp-pos2", "get_complete_accessor", (k,), {}),
        ("EDIT-ACC-A", None, (), {}),
        ("encA-edited", "encode", (msg, accA, start), {}),
        ("decA-edited", "decode", (env["strand"], L, accA, start), {}),
        ("n2d-3", "number_to_dna", (5, 3), {}),
        ("n2d-4", "number_to_dna", (5, 4), {}),
        ("n2d-0-3", "number_to_dna", (0, 3), {}),
        ("n2d-0-2", "number_to_dna", (0, 2), {}),
        ("n2d-s", "number_to_dna", ("5", 2), {}),
        ("n2b-3", "number_to_bit", (5, 3), {}),
        ("n2b-8", "number_to_bit", (5, 8), {}),
        ("n2b-s", "number_to_bit", ("5", 4), {}),
        ("vt-4", "set_vt", (env["strand"], 4), {}),
        ("vt-5", "set_vt", (env["strand"], 5), {}),
        ("vt-2", "set_vt", (env["strand"], 2), {}),
        ("lat-k", "obtain_latters", (env["root"], k), {}),
        ("lat-k3", "obtain_latters", (env["root"], 3), {}),
        ("for-k3", "obtain_formers", (env["root"], 3), {}),
        ("for-k", "obtain_formers", (env["root"], k), {}),
    ]
    return steps


SCENARIOS["variation"] = s_variation
