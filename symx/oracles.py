"""symx.oracles -- independent specifications written directly as z3 terms (never derived from the
repository's code) and the symbolic input universes used by the harnesses."""
import z3

from .core import SymInt, SymBool, eng, zint
from . import symnp, strs

NUC = "ACGT"


def succ(v, j, k):
    return (v * 4 + j) % (4 ** k)


# ------------------------------------------------------------------------------ universes
class GraphU(object):
    """All arc subsets of the order-k de Bruijn graph: one Bool per (vertex, nucleotide)."""

    def __init__(self, k, name="a", fixed=None):
        self.k = k
        self.N = 4 ** k
        self.arc = [[z3.Bool("%s_%d_%d" % (name, v, j)) for j in range(4)] for v in range(self.N)]
        if fixed is not None:  # concrete graph: list of rows with -1 / successor
            self.arc = [[z3.BoolVal(fixed[v][j] >= 0) for j in range(4)] for v in range(self.N)]

    def accessor(self):
        k = self.k
        rows = []
        for v in range(self.N):
            for j in range(4):
                a = self.arc[v][j]
                if z3.is_true(a):
                    rows.append(succ(v, j, k))
                elif z3.is_false(a):
                    rows.append(-1)
                else:
                    rows.append(SymInt(z3.If(a, succ(v, j, k), -1)))
        return symnp.Arr.new(rows, (self.N, 4), symnp.INT)

    def deg(self, v):
        return z3.Sum([z3.If(self.arc[v][j], 1, 0) for j in range(4)])

    def live(self, v):
        return z3.Or(self.arc[v])

    def model_rows(self, m):
        return [[(succ(v, j, self.k) if z3.is_true(m.eval(self.arc[v][j], model_completion=True)) else -1)
                 for j in range(4)] for v in range(self.N)]

    # selection of per-vertex quantities by a symbolic vertex term
    def sel(self, vterm, f):
        """ite-chain over vertices of f(v) (z3 terms)."""
        e = f(self.N - 1)
        for v in range(self.N - 2, -1, -1):
            e = z3.If(vterm == v, f(v), e)
        return e


def wellformed(g, t=1):
    """WF(t): arcs only into live vertices, every live vertex has >= max(t,1) arcs and reaches a
    branching vertex (bounded backward closure, N rounds)."""
    cs = []
    N, k = g.N, g.k
    for v in range(N):
        for j in range(4):
            cs.append(z3.Implies(g.arc[v][j], g.live(succ(v, j, k))))
        cs.append(z3.Implies(g.live(v), g.deg(v) >= max(t, 1)))
    good = [g.deg(v) >= 2 for v in range(N)]
    for _ in range(N):
        good = [z3.Or(good[v], z3.Or([z3.And(g.arc[v][j], good[succ(v, j, k)]) for j in range(4)])) for v in range(N)]
    for v in range(N):
        cs.append(z3.Implies(g.live(v), good[v]))
    return z3.And(cs)


def reach_branch_dist(g):
    """dist[v] (z3 Int terms): length of the shortest walk from v to a vertex with >= 2 arcs
    (N+1 if none)."""
    N, k = g.N, g.k
    INF = N + 1
    d = [z3.If(g.deg(v) >= 2, 0, INF) for v in range(N)]
    for _ in range(N):
        nd = []
        for v in range(N):
            best = d[v]
            for j in range(4):
                c = z3.If(g.arc[v][j], d[succ(v, j, k)] + 1, INF)
                best = z3.If(c < best, c, best)
            nd.append(best)
        d = nd
    return d


class TableU(object):
    """digit-shuffle table: one symbolic permutation of 0..3 per vertex."""

    def __init__(self, k, name="s"):
        self.N = 4 ** k
        self.t = [[z3.Int("%s_%d_%d" % (name, v, j)) for j in range(4)] for v in range(self.N)]

    def constraints(self):
        cs = []
        for r in self.t:
            cs.append(z3.Distinct(*r))
            for x in r:
                cs.append(z3.And(x >= 0, x <= 3))
        return z3.And(cs)

    def array(self):
        return symnp.Arr.new([SymInt(x) for r in self.t for x in r], (self.N, 4), symnp.INT)

    def model_rows(self, m):
        return [[m.eval(x, model_completion=True).as_long() for x in r] for r in self.t]


def bits(L, name="m"):
    return [z3.Int("%s_%d" % (name, i)) for i in range(L)]


def bits_constraints(bs):
    return z3.And([z3.And(b >= 0, b <= 1) for b in bs]) if bs else z3.BoolVal(True)


def bits_value(bs):
    v = z3.IntVal(0)
    for b in bs:
        v = v * 2 + b
    return v


def sym_string(n, name="c", alphabet=NUC):
    """(SStr-or-K value, code terms, constraint) for a string of length n over `alphabet`."""
    codes = [z3.Int("%s_%d" % (name, i)) for i in range(n)]
    cons = z3.And([z3.Or([c == ord(a) for a in alphabet]) for c in codes]) if n else z3.BoolVal(True)
    return strs.mk(codes), codes, cons


def model_string(m, codes):
    return "".join(chr(m.eval(c, model_completion=True).as_long()) for c in codes)


def nuc_index(code):
    """z3 term: index in ACGT of a code point (-1 when foreign)."""
    return z3.If(code == 65, 0, z3.If(code == 67, 1, z3.If(code == 71, 2, z3.If(code == 84, 3, -1))))


# ------------------------------------------------------------------------------ walks
def walk_terms(g, start, codes):
    """independent unfolding of a walk: returns (ok_i list, vertex_i list) where vertex_0 = start,
    ok_i says the first i+1 characters are nucleotides following stored arcs."""
    k = g.k
    v = start
    oks, vs = [], [start]
    ok = z3.BoolVal(True)
    for c in codes:
        j = nuc_index(c)
        present = g.sel(v, lambda u: z3.Or([z3.And(j == jj, g.arc[u][jj]) for jj in range(4)]))
        ok = z3.And(ok, j >= 0, present)
        v = z3.simplify((v * 4 + j) % (4 ** k)) if False else (v * 4 + j) % (4 ** k)
        oks.append(ok)
        vs.append(v)
    return oks, vs


def is_walk(g, start, codes):
    oks, _ = walk_terms(g, start, codes)
    return oks[-1] if oks else z3.BoolVal(True)


# ------------------------------------------------------------------------------ VT check
def vt_terms(codes, n_vt):
    """independent VT formula: list of n_vt z3 code-point terms."""
    vals = [nuc_index(c) for c in codes]
    flag = (z3.Sum(vals) if vals else z3.IntVal(0)) % 4
    asc = z3.Sum([z3.If(vals[i] < vals[i + 1], i, 0) for i in range(len(vals) - 1)]) if len(vals) > 1 else z3.IntVal(0)
    out = [code_of_index(flag)]
    if n_vt > 1:
        val = asc % (4 ** (n_vt - 1))
        for i in range(n_vt - 1):
            out.append(code_of_index((val / (4 ** (n_vt - 2 - i))) % 4))
    return out


def code_of_index(i):
    return z3.If(i == 0, 65, z3.If(i == 1, 67, z3.If(i == 2, 71, 84)))


# ------------------------------------------------------------------------------ reference coder
def rank_live(g, tab, vterm, digit):
    """column (0..3) of the arc selected by `digit` at vertex `vterm`: the digit-th live arc in ACGT
    order, or -- with a table -- the live arc whose table entry has rank `digit` among live ones."""
    def at(u):
        live = g.arc[u]
        if tab is None:
            key = [z3.IntVal(j) for j in range(4)]
        else:
            key = tab.t[u]
        res = z3.IntVal(-1)
        for j in range(3, -1, -1):
            rk = z3.Sum([z3.If(z3.And(live[i], key[i] < key[j]), 1, 0) for i in range(4) if i != j])
            res = z3.If(z3.And(live[j], rk == digit), j, res)
        return res
    return g.sel(vterm, at)


def digit_of_arc(g, tab, vterm, col):
    """inverse of rank_live: digit carried by taking column `col` at `vterm`."""
    def at(u):
        live = g.arc[u]
        key = [z3.IntVal(j) for j in range(4)] if tab is None else tab.t[u]
        res = z3.IntVal(-1)
        for j in range(4):
            rk = z3.Sum([z3.If(z3.And(live[i], key[i] < key[j]), 1, 0) for i in range(4) if i != j])
            res = z3.If(col == j, rk, res)
        return res
    return g.sel(vterm, at)


def ref_encode_normal(g, tab, start, value, max_steps):
    """reference mixed-radix coder, normal mode.  Returns list of (active_i, col_i, deg_i, q_before_i,
    v_i): step i is taken iff active_i; strand length = number of active steps."""
    k = g.k
    q, v = value, start
    steps = []
    for _ in range(max_steps):
        active = q != 0
        deg = g.sel(v, lambda u: g.deg(u))
        digit = z3.If(deg == 2, q % 2, z3.If(deg == 3, q % 3, z3.If(deg == 4, q % 4, 0)))
        qn = z3.If(deg == 2, q / 2, z3.If(deg == 3, q / 3, z3.If(deg == 4, q / 4, q)))
        col = rank_live(g, tab if tab is not None else None, v, z3.If(deg >= 2, digit, 0)) if tab is not None else \
            rank_live(g, None, v, z3.If(deg >= 2, digit, 0))
        # at a degree-1 vertex the only arc is taken whatever the table says
        only = g.sel(v, lambda u: z3.If(g.arc[u][0], 0, z3.If(g.arc[u][1], 1, z3.If(g.arc[u][2], 2, 3))))
        col = z3.If(deg == 1, only, col)
        steps.append((active, col, deg, q, v))
        nv = (v * 4 + col) % (4 ** k)
        q = z3.If(active, qn, q)
        v = z3.If(active, nv, v)
    return steps, q


def ref_encode_fast(g, tab, start, bs, max_steps):
    """reference fast-mode coder: 2 bits (MSB first; a missing last bit reads as 0) at 4-way vertices,
    1 bit at 2-way vertices, none at 1-way vertices."""
    k = g.k
    L = len(bs)
    loc, v = z3.IntVal(0), start

    def bit_at(p):
        e = z3.IntVal(0)
        for i in range(L - 1, -1, -1):
            e = z3.If(p == i, bs[i], e)
        return e
    steps = []
    for _ in range(max_steps):
        active = loc < L
        deg = g.sel(v, lambda u: g.deg(u))
        d4 = bit_at(loc) * 2 + bit_at(loc + 1)
        d2 = bit_at(loc)
        digit = z3.If(deg == 4, d4, z3.If(deg == 2, d2, 0))
        col = rank_live(g, tab, v, digit)
        steps.append((active, col, deg, loc, v))
        nv = (v * 4 + col) % (4 ** k)
        loc = z3.If(active, loc + z3.If(deg == 4, 2, z3.If(deg == 2, 1, 0)), loc)
        v = z3.If(active, nv, v)
    return steps, loc
