"""symx.core -- decision-replay symbolic executor and symbolic scalar values.

The engine executes ordinary Python code (the repository's own functions, loaded by
symx.loader) in which some scalars are `SymInt` / `SymBool` / `SymReal` wrappers around z3
terms.  Whenever Python needs a concrete truth value (`if`, `while`, `and`, `not`, list
membership, ...) `SymBool.__bool__` asks the engine, which asks z3 whether the condition and
its negation are feasible under the current path condition; if both are, the path forks.
Forking is implemented by *decision replay*: the harness body is re-executed from the start
with a recorded prefix of decisions, so arbitrary Python control flow (exceptions,
generators, library code such as networkx) works unchanged.

Every non-constant decision is recorded in the trace (also the ones where only one side is
feasible), because on replay the solver is not consulted and the alignment of prefix and
execution must not depend on solver answers.
"""
import time
from fractions import Fraction

import z3

__all__ = ["Abort", "Inconclusive", "Budget", "Engine", "SymInt", "SymBool", "SymReal", "eng",
           "zint", "zbool", "is_sym", "concrete_int"]


class Abort(BaseException):
    """The current path is infeasible (or a replay prefix does not apply)."""


class Inconclusive(BaseException):
    """Solver answered unknown / construct outside the modelled fragment."""


class Budget(BaseException):
    """Access budget exceeded (the unwinding assertion of the harness)."""


ENG = None
SOLVER_PARAMS = {"arith.solver": 2}


def eng():
    if ENG is None:
        raise RuntimeError("no active symx engine")
    return ENG


class Engine:
    def __init__(self, timeout_ms=120000, incremental=False):
        self.timeout_ms = timeout_ms
        self.incremental = incremental
        self._solver = None
        self._npc = 0
        self.pc = []
        self.trace = []
        self.prefix = []
        self.work = []
        self.cache = {}
        self.keep = []
        self.model = None
        self.nq = 0
        self.tq = 0.0
        self.nforks = 0
        self.ndecisions = 0
        self.max_trace = 0
        self.fresh_id = 0
        self.nstatic = 0
        self.ivals = Intervals()

    # ------------------------------------------------------------------ solver
    def check(self, *extra, _raw=False):
        t = time.time()
        if self.incremental:
            s = self._solver
            if s is None:
                s = self._solver = z3.SimpleSolver()
                s.set("timeout", self.timeout_ms)
                self._npc = 0
            while self._npc < len(self.pc):
                s.add(self.pc[self._npc])
                self._npc += 1
            if extra:
                s.push()
                for e in extra:
                    s.add(e)
            r = s.check()
            m = s.model() if r == z3.sat else None
            if extra:
                s.pop()
        else:
            s = z3.SimpleSolver()
            s.set("timeout", self.timeout_ms)
            for pk, pv in SOLVER_PARAMS.items():
                s.set(pk, pv)
            for e in self.pc:
                s.add(e)
            for e in extra:
                s.add(e)
            r = s.check()
            if r == z3.unknown and getattr(self, "retry_unknown", True):
                # second opinion: the default solver stack (different arithmetic core), twice the time
                s = z3.Solver()
                s.set("timeout", 2 * self.timeout_ms)
                for e in self.pc:
                    s.add(e)
                for e in extra:
                    s.add(e)
                r = s.check()
                self.nretry = getattr(self, "nretry", 0) + 1
            m = s.model() if r == z3.sat else None
        self.nq += 1
        self.tq += time.time() - t
        if not extra and not _raw:
            # "give me a model of this path": an infeasible path is abandoned, an undecided one is inconclusive (never a None model)
            if str(r) == "unknown":
                raise Inconclusive("solver unknown on path condition")
            if str(r) != "sat":
                raise Abort()
        return str(r), m

    def _ensure_model(self):
        if self.model is None:
            r, m = self.check(_raw=True)
            if r == "unknown":
                raise Inconclusive("solver unknown on path condition")
            if r != "sat":
                raise Abort()
            self.model = m
        return self.model

    def fresh(self, name, sort="int"):
        self.fresh_id += 1
        nm = "%s!%d" % (name, self.fresh_id)
        return z3.Int(nm) if sort == "int" else (z3.Bool(nm) if sort == "bool" else z3.Real(nm))

    # ---------------------------------------------------------------- decisions
    def decide(self, e):
        e = z3.simplify(e)
        if z3.is_true(e):
            return True
        if z3.is_false(e):
            return False
        key = e.get_id()
        if key in self.cache:
            return self.cache[key]
        tv = self.ivals.truth(e)
        if tv is not None:
            self.cache[key] = tv
            self.keep.append(e)
            self.nstatic += 1
            return tv
        self.ndecisions += 1
        i = len(self.trace)
        if i < len(self.prefix):
            d = self.prefix[i]
            if not isinstance(d, bool):
                raise Abort()  # misaligned replay: must never happen
            self.trace.append(d)
            self.pc.append(e if d else z3.Not(e))
            self.model = None
        else:
            d = self._decide_new(e)
        self.cache[key] = d
        self.keep.append(e)
        if len(self.trace) > self.max_trace:
            self.max_trace = len(self.trace)
        return d

    def _decide_new(self, e):
        m = self._ensure_model()
        mv = z3.is_true(m.eval(e, model_completion=True))
        other = z3.Not(e) if mv else e
        r, m2 = self.check(other)
        if r == "unknown":
            raise Inconclusive("solver unknown on branch condition")
        if r == "sat":
            self.work.append(self.trace + [not mv])
            self.nforks += 1
        self.trace.append(mv)
        self.pc.append(e if mv else z3.Not(e))
        return mv

    def assume(self, e):
        """Add an assumption (no fork).  Aborts the path if it becomes infeasible."""
        e = z3.simplify(e)
        if z3.is_true(e):
            return
        self.ivals.learn(e)
        self.pc.append(e)
        if self.model is not None and not z3.is_true(self.model.eval(e, model_completion=True)):
            self.model = None
        if len(self.trace) >= len(self.prefix):
            self._ensure_model()

    def concretize(self, e):
        """Fork over the feasible integer values of term e; return the chosen Python int."""
        e = z3.simplify(e)
        if z3.is_int_value(e):
            return e.as_long()
        while True:
            i = len(self.trace)
            if i < len(self.prefix):
                d = self.prefix[i]
                if not isinstance(d, tuple):
                    raise Abort()
                self.trace.append(d)
                self.model = None
                if d[0] == "eq":
                    self.pc.append(e == d[1])
                    return d[1]
                self.pc.append(e != d[1])
                continue
            m = self._ensure_model()
            v = m.eval(e, model_completion=True)
            if not z3.is_int_value(v):
                raise Inconclusive("cannot concretise %s" % e)
            v = v.as_long()
            r, _ = self.check(e != v)
            if r == "unknown":
                raise Inconclusive("solver unknown while concretising")
            if r == "sat":
                self.work.append(self.trace + [("ne", v)])
                self.nforks += 1
            self.trace.append(("eq", v))
            self.pc.append(e == v)
            if len(self.trace) > self.max_trace:
                self.max_trace = len(self.trace)
            return v

    # -------------------------------------------------------------- exploration
    def explore(self, fn, roots=None, max_paths=None, max_seconds=None):
        """DFS over decision prefixes.  fn(engine) -> result record (any picklable).
        Returns (results, leftover_prefixes)."""
        global ENG
        self.work = [list(r) for r in (roots if roots is not None else [[]])]
        results = []
        t0 = time.time()
        n = 0
        while self.work:
            if max_paths is not None and n >= max_paths:
                break
            if max_seconds is not None and n > 0 and time.time() - t0 > max_seconds:
                break
            self.prefix = self.work.pop()
            self.trace = []
            self.pc = []
            self.cache = {}
            self.keep = []
            self.model = None
            self._solver = None
            self.ivals = Intervals()
            self.fresh_id = 0
            ENG = self
            try:
                r = fn(self)
            except Abort:
                continue
            finally:
                ENG = None
            n += 1
            results.append(r)
        left = self.work
        self.work = []
        return results, left

    def stats(self):
        return {"queries": self.nq, "solver_s": round(self.tq, 3), "forks": self.nforks, "static_decisions": self.nstatic,
                "decisions": self.ndecisions, "max_path_len": self.max_trace}



class Intervals(object):
    """Cheap, deterministic interval reasoning used to settle decisions that are implied by the declared
    ranges of the input variables (bounds checks mostly) without a solver call.  Sound: it only answers
    when the interval of the term proves the condition; deterministic in the term and the assumptions
    seen so far, so decision replay stays aligned."""

    def __init__(self):
        self.rng = {}      # id of Int const -> (lo, hi)
        self.memo = {}
        self.keep = []

    def learn(self, e):
        """pick up  lo <= x, x <= hi, x < hi, x >= lo  conjuncts of an assumption."""
        if z3.is_and(e):
            for c in e.children():
                self.learn(c)
            return
        if not z3.is_app(e) or e.num_args() != 2:
            return
        k = e.decl().kind()
        a, b = e.arg(0), e.arg(1)
        if k in (z3.Z3_OP_LE, z3.Z3_OP_GE, z3.Z3_OP_LT, z3.Z3_OP_GT):
            if z3.is_int_value(b) and z3.is_const(a) and a.decl().kind() == z3.Z3_OP_UNINTERPRETED and z3.is_int(a):
                v, x = b.as_long(), a
            elif z3.is_int_value(a) and z3.is_const(b) and b.decl().kind() == z3.Z3_OP_UNINTERPRETED and z3.is_int(b):
                v, x = a.as_long(), b
                k = {z3.Z3_OP_LE: z3.Z3_OP_GE, z3.Z3_OP_GE: z3.Z3_OP_LE, z3.Z3_OP_LT: z3.Z3_OP_GT, z3.Z3_OP_GT: z3.Z3_OP_LT}[k]
            else:
                return
            lo, hi = self.rng.get(x.get_id(), (None, None))
            if k == z3.Z3_OP_LE:
                hi = v if hi is None else min(hi, v)
            elif k == z3.Z3_OP_LT:
                hi = v - 1 if hi is None else min(hi, v - 1)
            elif k == z3.Z3_OP_GE:
                lo = v if lo is None else max(lo, v)
            else:
                lo = v + 1 if lo is None else max(lo, v + 1)
            self.rng[x.get_id()] = (lo, hi)
            self.keep.append(x)
            self.memo = {}

    def ival(self, e):
        i = e.get_id()
        r = self.memo.get(i)
        if r is None:
            try:
                r = self._ival(e)
            except RecursionError:
                r = (None, None)
            self.memo[i] = r
            self.keep.append(e)
        return r

    def _ival(self, e):
        if z3.is_int_value(e):
            v = e.as_long()
            return (v, v)
        if not z3.is_app(e):
            return (None, None)
        k = e.decl().kind()
        if k == z3.Z3_OP_UNINTERPRETED and e.num_args() == 0:
            return self.rng.get(e.get_id(), (None, None))
        if k == z3.Z3_OP_ITE:
            t = self.truth(e.arg(0))
            if t is True:
                return self.ival(e.arg(1))
            if t is False:
                return self.ival(e.arg(2))
            a, b = self.ival(e.arg(1)), self.ival(e.arg(2))
            lo = None if a[0] is None or b[0] is None else min(a[0], b[0])
            hi = None if a[1] is None or b[1] is None else max(a[1], b[1])
            return (lo, hi)
        if k == z3.Z3_OP_ADD:
            lo, hi = 0, 0
            for c in e.children():
                a = self.ival(c)
                lo = None if lo is None or a[0] is None else lo + a[0]
                hi = None if hi is None or a[1] is None else hi + a[1]
            return (lo, hi)
        if k == z3.Z3_OP_SUB and e.num_args() == 2:
            a, b = self.ival(e.arg(0)), self.ival(e.arg(1))
            lo = None if a[0] is None or b[1] is None else a[0] - b[1]
            hi = None if a[1] is None or b[0] is None else a[1] - b[0]
            return (lo, hi)
        if k == z3.Z3_OP_UMINUS:
            a = self.ival(e.arg(0))
            return (None if a[1] is None else -a[1], None if a[0] is None else -a[0])
        if k == z3.Z3_OP_MUL and e.num_args() == 2:
            a, b = self.ival(e.arg(0)), self.ival(e.arg(1))
            if None in a or None in b:
                return (None, None)
            ps = [a[0] * b[0], a[0] * b[1], a[1] * b[0], a[1] * b[1]]
            return (min(ps), max(ps))
        if k == z3.Z3_OP_MOD and z3.is_int_value(e.arg(1)) and e.arg(1).as_long() > 0:
            d = e.arg(1).as_long()
            a = self.ival(e.arg(0))
            if a[0] is not None and a[1] is not None and a[0] >= 0 and a[1] < d:
                return a
            return (0, d - 1)
        if k == z3.Z3_OP_IDIV and z3.is_int_value(e.arg(1)) and e.arg(1).as_long() > 0:
            d = e.arg(1).as_long()
            a = self.ival(e.arg(0))
            return (None if a[0] is None else a[0] // d, None if a[1] is None else a[1] // d)
        return (None, None)

    def truth(self, e):
        """True / False when intervals decide the Bool term e, else None."""
        i = ("b", e.get_id())
        if i in self.memo:
            return self.memo[i]
        try:
            r = self._truth(e)
        except RecursionError:
            r = None
        self.memo[i] = r
        self.keep.append(e)
        return r

    def _truth(self, e):
        if z3.is_true(e):
            return True
        if z3.is_false(e):
            return False
        if not z3.is_app(e):
            return None
        k = e.decl().kind()
        if k == z3.Z3_OP_AND:
            unk = False
            for c in e.children():
                t = self.truth(c)
                if t is False:
                    return False
                if t is None:
                    unk = True
            return None if unk else True
        if k == z3.Z3_OP_OR:
            unk = False
            for c in e.children():
                t = self.truth(c)
                if t is True:
                    return True
                if t is None:
                    unk = True
            return None if unk else False
        if k == z3.Z3_OP_NOT:
            t = self.truth(e.arg(0))
            return None if t is None else (not t)
        if k in (z3.Z3_OP_LE, z3.Z3_OP_GE, z3.Z3_OP_LT, z3.Z3_OP_GT, z3.Z3_OP_EQ, z3.Z3_OP_DISTINCT) and e.num_args() == 2 \
                and z3.is_int(e.arg(0)):
            a, b = self.ival(e.arg(0)), self.ival(e.arg(1))
            if k == z3.Z3_OP_GE:
                a, b, k = b, a, z3.Z3_OP_LE
            elif k == z3.Z3_OP_GT:
                a, b, k = b, a, z3.Z3_OP_LT
            if k == z3.Z3_OP_LE:      # a <= b
                if a[1] is not None and b[0] is not None and a[1] <= b[0]:
                    return True
                if a[0] is not None and b[1] is not None and a[0] > b[1]:
                    return False
                return None
            if k == z3.Z3_OP_LT:
                if a[1] is not None and b[0] is not None and a[1] < b[0]:
                    return True
                if a[0] is not None and b[1] is not None and a[0] >= b[1]:
                    return False
                return None
            disjoint = (a[1] is not None and b[0] is not None and a[1] < b[0]) or (a[0] is not None and b[1] is not None and a[0] > b[1])
            same = a[0] is not None and a[0] == a[1] and b[0] == b[1] and a[0] == b[0]
            if k == z3.Z3_OP_EQ:
                return False if disjoint else (True if same else None)
            return True if disjoint else (False if same else None)
        return None


# ------------------------------------------------------------------------ coercions
def _frac(x):
    f = Fraction(x)
    return z3.RealVal(str(f.numerator) + "/" + str(f.denominator))


def is_sym(x):
    return isinstance(x, (SymInt, SymBool, SymReal))


def _np_item(x):
    it = getattr(x, "item", None)
    if it is not None and type(x).__module__ == "numpy":
        return x.item()
    return x


def zint(x):
    """z3 Int term of an int-like value."""
    if isinstance(x, SymInt):
        return x.e
    if isinstance(x, SymBool):
        return z3.If(x.e, 1, 0)
    x = _np_item(x)
    if isinstance(x, bool):
        return z3.IntVal(int(x))
    if isinstance(x, int):
        return z3.IntVal(x)
    raise TypeError("not an int-like value: %r" % type(x))


def zbool(x):
    if isinstance(x, SymBool):
        return x.e
    if isinstance(x, SymInt):
        return x.e != 0
    if isinstance(x, SymReal):
        return x.e != 0
    x = _np_item(x)
    if isinstance(x, (bool, int, float)):
        return z3.BoolVal(bool(x))
    raise TypeError("not a bool-like value: %r" % type(x))


def zreal(x):
    if isinstance(x, SymReal):
        return x.e
    if isinstance(x, (SymInt, SymBool)):
        return z3.ToReal(zint(x))
    x = _np_item(x)
    if isinstance(x, (bool, int)):
        return z3.RealVal(int(x))
    if isinstance(x, float):
        if x != x or x in (float("inf"), float("-inf")):
            raise Inconclusive("non-finite float")
        return _frac(x)
    raise TypeError("not a real-like value: %r" % type(x))


I64_LO, I64_HI = -2 ** 63, 2 ** 63 - 1


def _interval(e):
    if ENG is None:
        return (None, None)
    return ENG.ivals.ival(z3.simplify(e))


def wrap64(e):
    """two's-complement int64 wrap-around of an integer term -- applied to numpy-typed results only when the interval
    analysis cannot show that the value fits (so ordinary small values keep their plain terms)."""
    lo, hi = _interval(e)
    if lo is not None and hi is not None and lo >= I64_LO and hi <= I64_HI:
        return e
    return ((e + 2 ** 63) % (2 ** 64)) - 2 ** 63


def fl_int(e):
    """binary64 rounding (round-half-even) of a non-negative integer term below 2^64; identity when the interval
    analysis shows |e| < 2^53."""
    lo, hi = _interval(e)
    if lo is not None and hi is not None and lo > -2 ** 53 and hi < 2 ** 53:
        return e
    if lo is None or lo < 0 or hi is None or hi >= 2 ** 64:
        raise Inconclusive("int -> float conversion of a value that is not provably in [0, 2^64)")
    r = e
    for b in range(53, 64):
        if hi < 2 ** b:
            break
        u = 2 ** (b - 52)                 # spacing of doubles in [2^b, 2^(b+1))
        q, m = e / u, e % u
        half = u // 2
        rounded = z3.If(m < half, q * u, z3.If(m > half, (q + 1) * u, z3.If(q % 2 == 0, q * u, (q + 1) * u)))
        r = z3.If(e >= 2 ** b, rounded, r)
    return r


def concrete_int(x):
    """Python int of a (possibly symbolic) int-like; forks when symbolic."""
    if isinstance(x, (SymInt, SymBool)):
        return eng().concretize(zint(x))
    return int(x)


def _is_num(x):
    return isinstance(x, (int, float, SymInt, SymBool, SymReal)) or type(x).__module__ == "numpy" and getattr(x, "ndim", 1) == 0


def _is_floaty(x):
    if isinstance(x, SymReal):
        return True
    x = _np_item(x)
    return isinstance(x, float)


class _SymBase:
    __array_ufunc__ = None  # numpy scalars defer binary operators to us
    __slots__ = ()


def _arith(a, b, fi, fr):
    """apply integer op fi or real op fr depending on operand kinds."""
    if _is_floaty(a) or _is_floaty(b):
        return SymReal(fr(zreal(a), zreal(b)))
    return None


class SymInt(_SymBase):
    __slots__ = ("e", "np")

    def __init__(self, e, np=False):
        self.e = e
        self.np = np

    # helpers
    def _w(self, e, o=None):
        npf = self.np or bool(getattr(o, "np", False)) or type(o).__module__ == "numpy"
        return SymInt(wrap64(e) if npf else e, npf)

    def _other_ok(self, o):
        return _is_num(o)

    def __add__(s, o):
        if not _is_num(o):
            return NotImplemented
        if _is_floaty(o):
            return SymReal(zreal(s) + zreal(o))
        return s._w(s.e + zint(o), o)

    __radd__ = __add__

    def __sub__(s, o):
        if not _is_num(o):
            return NotImplemented
        if _is_floaty(o):
            return SymReal(zreal(s) - zreal(o))
        return s._w(s.e - zint(o), o)

    def __rsub__(s, o):
        if not _is_num(o):
            return NotImplemented
        if _is_floaty(o):
            return SymReal(zreal(o) - zreal(s))
        return s._w(zint(o) - s.e, o)

    def __mul__(s, o):
        if not _is_num(o):
            return NotImplemented
        if _is_floaty(o):
            return SymReal(zreal(s) * zreal(o))
        return s._w(s.e * zint(o), o)

    __rmul__ = __mul__

    def _divisor(s, o):
        """concrete positive divisor (forks if symbolic)."""
        d = concrete_int(o)
        return d

    def __floordiv__(s, o):
        if not _is_num(o):
            return NotImplemented
        if _is_floaty(o):
            raise Inconclusive("float floor division")
        d = s._divisor(o)
        if d == 0:
            if s.np or type(o).__module__ == "numpy":
                return s._w(z3.IntVal(0), o)
            raise ZeroDivisionError("integer division or modulo by zero")
        if d > 0:
            return s._w(s.e / d, o)
        return s._w((-s.e) / (-d), o)

    def __rfloordiv__(s, o):
        d = concrete_int(s)
        o = _np_item(o)
        if d == 0:
            raise ZeroDivisionError("integer division or modulo by zero")
        return o // d

    def __mod__(s, o):
        if not _is_num(o):
            return NotImplemented
        if _is_floaty(o):
            raise Inconclusive("float modulo")
        d = s._divisor(o)
        if d == 0:
            if s.np or type(o).__module__ == "numpy":
                return s._w(z3.IntVal(0), o)
            raise ZeroDivisionError("integer division or modulo by zero")
        if d > 0:
            return s._w(s.e % d, o)
        return s._w(-((-s.e) % (-d)), o)

    def __rmod__(s, o):
        if isinstance(o, str):
            return NotImplemented
        d = concrete_int(s)
        o = _np_item(o)
        if d == 0:
            raise ZeroDivisionError("integer division or modulo by zero")
        return o % d

    def __divmod__(s, o):
        return s // o, s % o

    def __rdivmod__(s, o):
        d = concrete_int(s)
        return divmod(_np_item(o), d)

    def __truediv__(s, o):
        if not _is_num(o):
            return NotImplemented
        if not is_sym(o) and float(_np_item(o)) == 0.0:
            if s.np or type(o).__module__ == "numpy":
                raise Inconclusive("numpy division by zero")
            raise ZeroDivisionError("division by zero")
        lo, hi = _interval(s.e)
        if lo is not None and lo >= 0 and hi is not None and hi >= 2 ** 53:
            # the numerator is converted to binary64 first: model its rounding exactly (division by a power of two is exact)
            return SymReal(z3.ToReal(fl_int(s.e)) / zreal(o))
        return SymReal(zreal(s) / zreal(o))

    def __rtruediv__(s, o):
        if not _is_num(o):
            return NotImplemented
        return SymReal(zreal(o) / zreal(s))

    def __pow__(s, o):
        ex = concrete_int(o)
        if ex < 0:
            raise Inconclusive("negative power")
        r = z3.IntVal(1)
        for _ in range(ex):
            r = r * s.e
        return s._w(r, o)

    def __rpow__(s, o):
        ex = concrete_int(s)
        return _np_item(o) ** ex

    def __neg__(s):
        return SymInt(-s.e, s.np)

    def __pos__(s):
        return s

    # bit operations: exact for a concrete shift count / a concrete mask of the form 2^c - 1; anything else is concretised
    def __rshift__(s, o):
        c = concrete_int(o)
        if c < 0:
            raise ValueError("negative shift count")
        return s._w(s.e / (2 ** c), o)

    def __lshift__(s, o):
        c = concrete_int(o)
        if c < 0:
            raise ValueError("negative shift count")
        return s._w(s.e * (2 ** c), o)

    def __rrshift__(s, o):
        return _np_item(o) >> concrete_int(s)

    def __rlshift__(s, o):
        return _np_item(o) << concrete_int(s)

    def __and__(s, o):
        if isinstance(o, (SymInt, SymBool)):
            return concrete_int(s) & concrete_int(o)
        m = int(_np_item(o))
        if m >= 0 and (m & (m + 1)) == 0:
            return s._w(s.e % (m + 1), o)
        return concrete_int(s) & m

    __rand__ = __and__

    def __or__(s, o):
        return concrete_int(s) | concrete_int(o)

    __ror__ = __or__

    def __xor__(s, o):
        return concrete_int(s) ^ concrete_int(o)

    __rxor__ = __xor__

    def __invert__(s):
        return SymInt(-s.e - 1, s.np)

    def __abs__(s):
        return SymInt(z3.If(s.e >= 0, s.e, -s.e), s.np)

    def _cmp(s, o, fi, fr):
        if not _is_num(o):
            return NotImplemented
        if _is_floaty(o):
            return SymBool(fr(zreal(s), zreal(o)), s.np)
        return SymBool(fi(s.e, zint(o)), s.np or type(o).__module__ == "numpy")

    def __lt__(s, o):
        return s._cmp(o, lambda a, b: a < b, lambda a, b: a < b)

    def __le__(s, o):
        return s._cmp(o, lambda a, b: a <= b, lambda a, b: a <= b)

    def __gt__(s, o):
        return s._cmp(o, lambda a, b: a > b, lambda a, b: a > b)

    def __ge__(s, o):
        return s._cmp(o, lambda a, b: a >= b, lambda a, b: a >= b)

    def __eq__(s, o):
        if not _is_num(o):
            return NotImplemented if hasattr(o, "_sym_eq") else False
        return s._cmp(o, lambda a, b: a == b, lambda a, b: a == b)

    def __ne__(s, o):
        if not _is_num(o):
            return NotImplemented if hasattr(o, "_sym_eq") else True
        return s._cmp(o, lambda a, b: a != b, lambda a, b: a != b)

    def __hash__(s):
        return hash(eng().concretize(s.e))

    def __bool__(s):
        return eng().decide(s.e != 0)

    def __index__(s):
        return eng().concretize(s.e)

    __int__ = __index__

    def __float__(s):
        return float(eng().concretize(s.e))

    def __repr__(s):
        e = z3.simplify(s.e)
        return str(e.as_long()) if z3.is_int_value(e) else "<sym-int>"

    __str__ = __repr__

    def __format__(s, spec):
        return format(eng().concretize(s.e), spec)

    def __round__(s, nd=None):
        if nd is None or nd >= 0:
            return SymInt(s.e, s.np)
        raise Inconclusive("round to negative digits")

    def item(s):
        return SymInt(s.e, False)


class SymBool(_SymBase):
    __slots__ = ("e", "np")

    def __init__(self, e, np=False):
        self.e = e
        self.np = np

    def __bool__(s):
        return eng().decide(s.e)

    def __invert__(s):
        return SymBool(z3.Not(s.e), s.np)

    def __and__(s, o):
        if isinstance(o, (SymBool, bool)) or type(o).__name__ == "bool_" or type(o).__name__ == "bool":
            return SymBool(z3.And(s.e, zbool(o)), s.np)
        return SymInt(zint(s), s.np) & o

    __rand__ = __and__

    def __or__(s, o):
        if isinstance(o, (SymBool, bool)) or type(o).__name__ in ("bool_", "bool"):
            return SymBool(z3.Or(s.e, zbool(o)), s.np)
        raise Inconclusive("bitwise or on ints")

    __ror__ = __or__

    def __xor__(s, o):
        return SymBool(z3.Xor(s.e, zbool(o)), s.np)

    __rxor__ = __xor__

    def _i(s):
        return SymInt(z3.If(s.e, 1, 0), s.np)

    def __add__(s, o):
        return s._i() + o

    __radd__ = __add__

    def __sub__(s, o):
        return s._i() - o

    def __rsub__(s, o):
        return o - s._i()

    def __mul__(s, o):
        return s._i() * o

    __rmul__ = __mul__

    def __floordiv__(s, o):
        return s._i() // o

    def __mod__(s, o):
        return s._i() % o

    def __truediv__(s, o):
        return s._i() / o

    def __rtruediv__(s, o):
        return o / s._i()

    def __neg__(s):
        return -s._i()

    def __lt__(s, o):
        return s._i() < o

    def __le__(s, o):
        return s._i() <= o

    def __gt__(s, o):
        return s._i() > o

    def __ge__(s, o):
        return s._i() >= o

    def __eq__(s, o):
        if isinstance(o, SymBool):
            return SymBool(s.e == o.e, s.np)
        if not _is_num(o):
            return False
        return s._i() == o

    def __ne__(s, o):
        if isinstance(o, SymBool):
            return SymBool(s.e != o.e, s.np)
        if not _is_num(o):
            return True
        return s._i() != o

    def __hash__(s):
        return hash(bool(s))

    def __index__(s):
        return int(bool(s))

    __int__ = __index__

    def __float__(s):
        return float(bool(s))

    def __repr__(s):
        e = z3.simplify(s.e)
        return "True" if z3.is_true(e) else ("False" if z3.is_false(e) else "<sym-bool>")

    __str__ = __repr__

    def item(s):
        return SymBool(s.e, False)


class SymReal(_SymBase):
    """Real-valued term standing for a Python/numpy float (floats are modelled as reals; the
    harnesses that rely on it say so)."""
    __slots__ = ("e", "np")

    def __init__(self, e, np=True):
        self.e = e
        self.np = np

    def __add__(s, o):
        if not _is_num(o):
            return NotImplemented
        return SymReal(s.e + zreal(o))

    __radd__ = __add__

    def __sub__(s, o):
        if not _is_num(o):
            return NotImplemented
        return SymReal(s.e - zreal(o))

    def __rsub__(s, o):
        if not _is_num(o):
            return NotImplemented
        return SymReal(zreal(o) - s.e)

    def __mul__(s, o):
        if not _is_num(o):
            return NotImplemented
        return SymReal(s.e * zreal(o))

    __rmul__ = __mul__

    def __truediv__(s, o):
        if not _is_num(o):
            return NotImplemented
        return SymReal(s.e / zreal(o))

    def __rtruediv__(s, o):
        if not _is_num(o):
            return NotImplemented
        return SymReal(zreal(o) / s.e)

    def __neg__(s):
        return SymReal(-s.e)

    def __abs__(s):
        return SymReal(z3.If(s.e >= 0, s.e, -s.e))

    def __lt__(s, o):
        return SymBool(s.e < zreal(o), True)

    def __le__(s, o):
        return SymBool(s.e <= zreal(o), True)

    def __gt__(s, o):
        return SymBool(s.e > zreal(o), True)

    def __ge__(s, o):
        return SymBool(s.e >= zreal(o), True)

    def __eq__(s, o):
        if not _is_num(o):
            return False
        return SymBool(s.e == zreal(o), True)

    def __ne__(s, o):
        if not _is_num(o):
            return True
        return SymBool(s.e != zreal(o), True)

    __hash__ = None

    def __bool__(s):
        return eng().decide(s.e != 0)

    def __round__(s, nd=None):
        sc = 10 ** (nd or 0)
        q = s.e * sc
        f = z3.ToInt(q)
        d = q - z3.ToReal(f)
        r = z3.If(d < _frac(0.5), f, z3.If(d > _frac(0.5), f + 1, z3.If(f % 2 == 0, f, f + 1)))
        if nd is None:
            return SymInt(r)
        return SymReal(z3.ToReal(r) / sc)

    def __float__(s):
        e = z3.simplify(s.e)
        if z3.is_rational_value(e):
            return float(Fraction(e.numerator_as_long(), e.denominator_as_long()))
        # log2 / ln of an integer-valued term: concretise the argument (forks over its feasible values)
        if z3.is_app(e) and e.num_args() == 1 and e.decl().name() in ("log2", "ln"):
            a = z3.simplify(e.arg(0))
            if z3.is_app(a) and a.decl().kind() == z3.Z3_OP_TO_REAL:
                import math
                v = eng().concretize(a.arg(0))
                if v <= 0:
                    return float("-inf") if v == 0 else float("nan")
                return math.log2(v) if e.decl().name() == "log2" else math.log(v)
        raise Inconclusive("symbolic real forced to float")

    def __repr__(s):
        return "<sym-real>"

    __str__ = __repr__

    def item(s):
        return s
