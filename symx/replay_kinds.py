"""More replay kinds (real numpy / real dsw; no z3 here).  Imported by replay_runner."""
import numpy as np

NUC = "ACGT"


def succ(v, j, k):
    return (v * 4 + j) % (4 ** k)


def kmer(v, k):
    return "".join(NUC[(v // 4 ** (k - 1 - i)) % 4] for i in range(k))


def call(f, *a, **k):
    try:
        return f(*a, **k), None
    except Exception as e:  # noqa
        return None, type(e).__name__ + ": " + str(e)[:160]


def gfp(k, mask, t):
    N = 4 ** k
    keep = [bool(x) for x in mask]
    while True:
        changed = False
        for v in range(N):
            if keep[v] and sum(keep[succ(v, j, k)] for j in range(4)) < t:
                keep[v] = False
                changed = True
        if t == 1:
            good = [keep[v] and sum(keep[succ(v, j, k)] for j in range(4)) >= 2 for v in range(N)]
            ch = True
            while ch:
                ch = False
                for v in range(N):
                    if keep[v] and not good[v] and any(keep[succ(v, j, k)] and good[succ(v, j, k)] for j in range(4)):
                        good[v] = True
                        ch = True
            for v in range(N):
                if keep[v] and not good[v]:
                    keep[v] = False
                    changed = True
        if not changed:
            break
    return keep


def induced(k, keep):
    N = 4 ** k
    return [[(succ(v, j, k) if keep[v] and keep[succ(v, j, k)] else -1) for j in range(4)] for v in range(N)]


def wf_concrete(k, rows, t):
    N = 4 ** k
    live = [any(x >= 0 for x in r) for r in rows]
    for v in range(N):
        for j in range(4):
            x = rows[v][j]
            if x != -1 and x != succ(v, j, k):
                return "entry [%d][%d] = %d is neither -1 nor the shift successor" % (v, j, x)
            if x >= 0 and not live[x]:
                return "arc %d -> %d leads to a vertex without arcs" % (v, x)
        d = sum(1 for x in rows[v] if x >= 0)
        if live[v] and d < max(t, 1):
            return "vertex %d has out-degree %d < %d" % (v, d, t)
    good = [sum(1 for x in rows[v] if x >= 0) >= 2 for v in range(N)]
    ch = True
    while ch:
        ch = False
        for v in range(N):
            if live[v] and not good[v] and any(x >= 0 and good[x] for x in rows[v]):
                good[v] = True
                ch = True
    for v in range(N):
        if live[v] and not good[v]:
            return "vertex %d cannot reach a branching vertex" % v
    return None


def k_gen(p):
    import dsw
    k, t = int(p["k"]), p.get("t")
    dt = bool if p.get("dtype") == "bool" else int
    mask = np.array(p["mask"], dtype=dt)
    want = p.get("want", "exact")
    if want == "valid":
        m0 = mask.copy()
        r, ex = call(dsw.connect_valid_graph, k, mask)
        if not any(p["mask"]):
            if ex is None or not ex.startswith("ValueError"):
                return True, "empty mask: expected ValueError, got %r / %r" % (r, ex)
            return False, "ValueError as expected"
        if ex is not None:
            return True, "connect_valid_graph raised %s" % ex
        exp = induced(k, [bool(x) for x in p["mask"]])
        if r.tolist() != exp:
            bad = [(v, r[v].tolist(), exp[v]) for v in range(4 ** k) if r[v].tolist() != exp[v]][:3]
            return True, "valid graph differs from the induced sub-graph at %s" % bad
        if (mask != m0).any():
            return True, "input mask was modified"
        return False, "matches"
    t = int(t)
    m0 = mask.copy()
    r, ex = call(dsw.connect_coding_graph, k, mask, t)
    keep = gfp(k, p["mask"], t)
    if (mask != m0).any():
        return True, "input mask was modified in place: %s -> %s" % (m0.astype(int).tolist(), mask.astype(int).tolist())
    if want == "wf":
        if ex is not None:
            if ex.startswith("ValueError"):
                return False, "ValueError"
            return True, "connect_coding_graph raised %s" % ex
        why = wf_concrete(k, r[1].tolist(), t)
        if why:
            return True, "generated graph is not well-formed: " + why
        vs_, rows_ = np.array(r[0]), r[1].tolist()
        den = sorted(int(x) for x in (np.where(vs_)[0] if vs_.dtype == bool or len(vs_) == 4 ** k and set(vs_.tolist()) <= {0, 1} and t >= 2 else vs_))
        for v in den:
            if not any(x >= 0 for x in rows_[v]):
                _s, ex_ = call(dsw.encode, np.array([1, 0, 1], dtype=int), r[1], v)
                return True, "vertex %d is reported as retained but encoding from it fails: %s" % (v, ex_)
        return False, "well-formed"
    if not any(keep):
        if ex is None:
            return True, "largest closed sub-graph is empty but a graph was returned (%d live rows)" % int((np.array(r[1]) >= 0).any(axis=1).sum())
        if not ex.startswith("ValueError"):
            return True, "expected ValueError, got %s" % ex
        return False, "ValueError as expected"
    if ex is not None:
        return True, "connect_coding_graph raised %s although the largest closed sub-graph has %d vertices" % (ex, sum(keep))
    vs, acc = r
    exp = induced(k, keep)
    if acc.tolist() != exp:
        bad = [(v, acc[v].tolist(), exp[v]) for v in range(4 ** k) if acc[v].tolist() != exp[v]][:3]
        return True, "accessor differs from the largest closed sub-graph at (vertex, got, expected) %s" % bad
    vs = np.array(vs)
    denoted = sorted(int(x) for x in (np.where(vs)[0] if vs.dtype == bool or len(vs) == 4 ** k and set(vs.tolist()) <= {0, 1} and t >= 2 else vs))
    live = [v for v in range(4 ** k) if any(x >= 0 for x in exp[v])]
    if denoted != live:
        return True, "returned vertex description %s does not denote the vertices with arcs %s" % (denoted, live)
    if p.get("trim") and t >= 2:
        vg, ex1 = call(dsw.connect_valid_graph, k, np.array(p["mask"], dtype=dt))
        if ex1 is None:
            lm = dsw.accessor_to_latter_map(vg)
            tr, ex2 = call(dsw.latter_map_to_accessor, lm, k, threshold=t)
            if ex2 is not None:
                return True, "latter_map_to_accessor(threshold=%d) raised %s" % (t, ex2)
            if tr.tolist() != exp:
                bad = [(v, tr[v].tolist(), exp[v]) for v in range(4 ** k) if tr[v].tolist() != exp[v]][:3]
                return True, "trimming the latter map to threshold %d differs from the coding graph at %s" % (t, bad)
    return False, "matches the oracle"


def k_find_vertices(p):
    """C11(a): user-defined filter given as the list of accepted k-mers, or a LocalBioFilter config."""
    import dsw
    k = int(p["k"])
    if p.get("local") is not None:
        c = p["local"]
        f = dsw.LocalBioFilter(observed_length=c["k"], max_homopolymer_runs=c.get("runs"), gc_range=c.get("gc"), undesired_motifs=c.get("motifs"))
        accepted = None
    else:
        accepted = set(p["accepted"])

        class F(dsw.DefaultBioFilter):
            def __init__(self):
                super().__init__(screen_name="user")

            def valid(self, dna_string):
                return dna_string in accepted
        f = F()
    r, ex = call(dsw.find_vertices, k, f)
    exp = [(kmer(v, k) in accepted) if accepted is not None else bool(f.valid(kmer(v, k))) for v in range(4 ** k)]
    if not any(exp):
        if ex is None or not ex.startswith("ValueError"):
            return True, "filter accepts nothing: expected ValueError, got %r / %r" % (r, ex)
        return False, "ValueError as expected"
    if ex is not None:
        return True, "find_vertices raised %s although the filter accepts %d k-mers" % (ex, sum(exp))
    got = [bool(x) for x in r]
    if got != exp or len(r) != 4 ** k:
        bad = [(v, kmer(v, k), got[v], exp[v]) for v in range(min(len(got), 4 ** k)) if got[v] != exp[v]][:4]
        return True, "mask differs from the filter verdicts at %s" % bad
    return False, "mask mirrors the filter"


KINDS = {"gen": k_gen, "find_vertices": k_find_vertices}


def k_arith(p):
    """C15: one call of a big-number helper vs Python int arithmetic."""
    import dsw
    import sys
    lim = sys.get_int_max_str_digits() if hasattr(sys, "get_int_max_str_digits") else 0
    op, a, b = p["op"], p["number"], p["base"]
    f = {"add": dsw.calculus_addition, "sub": dsw.calculus_subtraction, "mul": dsw.calculus_multiplication, "div": dsw.calculus_division}[op]
    try:
        r, ex = f(a, b), None           # the call itself runs under the interpreter's default limits
    except BaseException as e_:          # RecursionError is not an Exception subclass issue, but keep every failure
        r, ex = None, type(e_).__name__ + ": " + str(e_)[:120]
    if hasattr(sys, "set_int_max_str_digits"):
        sys.set_int_max_str_digits(0)    # the oracle needs unlimited conversions
    A, B = int(a), int(b)
    if op == "sub" and A < B:
        return False, "negative result: outside the property"
    if op == "div" and B == 0:
        return False, "division by zero: outside the property"
    if ex is not None:
        return True, "%s(%r, %r) raised %s" % (op, a, b, ex)
    exp = {"add": lambda: str(A + B), "sub": lambda: str(A - B), "mul": lambda: str(A * B), "div": lambda: (str(A // B), str(A % B))}[op]()
    got = tuple(r) if op == "div" else r
    if got != exp:
        return True, "%s(%r, %r) = %r, exact result %r" % (op, a, b, got, exp)
    return False, "exact"


def k_conv(p):
    """C16: conversions."""
    import dsw
    fn = p["fn"]
    if fn == "long-history":
        n = int(p["L"])
        a1 = [(i * 7 + i // 3) % 2 for i in range(n)]
        a2 = list(a1)
        for i in range(n // 2 - 5, n // 2 + 5):
            a2[i] = 1 - a2[i]
        import sys
        for is_string in (True,):
            for bits in (a1, a2):
                val = 0
                for b in bits:
                    val = val * 2 + b
                got, ex = call(dsw.bit_to_number, np.array(bits), is_string=is_string)
                if ex:
                    return True, "bit_to_number raised %s on a %d-bit array" % (ex, n)
                old = sys.get_int_max_str_digits()
                sys.set_int_max_str_digits(0)
                try:
                    same = (got if isinstance(got, str) else str(int(got))) == str(val)
                finally:
                    sys.set_int_max_str_digits(old)
                if not same:
                    return True, "bit_to_number on the %s %d-bit array (is_string=%s) returns a wrong number (%s...)" % ("second" if bits is a2 else "first", n, is_string, str(got)[:20])
        return False, "ok"
    if fn == "wide-string":
        import sys
        D, to = int(p["D"]), p.get("to", "dna")
        base = 4 if to == "dna" else 2
        number = ("7301942685" * (D // 10 + 1))[:D]
        old = sys.get_int_max_str_digits()
        sys.set_int_max_str_digits(0)
        v = int(number)
        sys.set_int_max_str_digits(old)
        width = 1
        while base ** width <= v:
            width += 1
        width += 3
        digs, x = [], v
        for _ in range(width):
            digs.append(x % base)
            x //= base
        digs.reverse()
        r, ex = call(dsw.number_to_dna if to == "dna" else dsw.number_to_bit, number, width)     # default interpreter limits
        if ex:
            return True, "number_to_%s raised %s on a %d-digit decimal string" % (to, ex, D)
        got = [NUC.index(c) for c in r] if to == "dna" else [int(b) for b in r]
        if got != digs:
            return True, "number_to_%s of a %d-digit decimal string is not its padded base-%d expansion" % (to, D, base)
        return False, "ok"
    if fn == "bits":
        bits = p["bits"]
        L = len(bits)
        val = int("".join(map(str, bits)), 2) if bits else 0
        s, ex1 = call(dsw.bit_to_number, bits, is_string=True)
        i, ex2 = call(dsw.bit_to_number, bits, is_string=False)
        if ex1 or ex2:
            return True, "bit_to_number raised %s / %s" % (ex1, ex2)
        if s != str(val) or i != val:
            return True, "bit_to_number(%s) = %r / %r, value %d" % (bits, s, i, val)
        for arg in (s, i):
            back, ex = call(dsw.number_to_bit, arg, L)
            if ex:
                return True, "number_to_bit(%r, %d) raised %s" % (arg, L, ex)
            if [int(x) for x in back] != [int(x) for x in bits]:
                return True, "number_to_bit(%r, %d) = %s != %s" % (arg, L, back, bits)
        return False, "round trip ok"
    if fn == "dna":
        s = p["dna"]
        n = len(s)
        val = 0
        for c in s:
            val = val * 4 + NUC.index(c)
        a, ex1 = call(dsw.dna_to_number, s, is_string=True)
        b, ex2 = call(dsw.dna_to_number, s, is_string=False)
        if ex1 or ex2:
            return True, "dna_to_number raised %s / %s" % (ex1, ex2)
        if a != str(val) or b != val:
            return True, "dna_to_number(%r) = %r / %r, value %d" % (s, a, b, val)
        for arg in (a, b):
            back, ex = call(dsw.number_to_dna, arg, n)
            if ex:
                return True, "number_to_dna(%r, %d) raised %s" % (arg, n, ex)
            if back != s:
                return True, "number_to_dna(%r, %d) = %r != %r" % (arg, n, back, s)
        return False, "round trip ok"
    if fn in ("num2bit", "num2dna"):
        v, width = int(p["value"]), int(p["width"])
        arg = str(v) if p.get("as_string") else v
        if fn == "num2bit":
            r, ex = call(dsw.number_to_bit, arg, width)
            exp = [(v >> (width - 1 - i)) & 1 for i in range(width)]
            if ex or [int(x) for x in r] != exp:
                return True, "number_to_bit(%r, %d) = %r (%s), expected %s" % (arg, width, r, ex, exp)
            back, ex = call(dsw.bit_to_number, r, is_string=False)
            if ex or back != v:
                return True, "bit_to_number(number_to_bit(%r)) = %r" % (arg, back)
        else:
            r, ex = call(dsw.number_to_dna, arg, width)
            exp = "".join(NUC[(v // 4 ** (width - 1 - i)) % 4] for i in range(width))
            if ex or r != exp:
                return True, "number_to_dna(%r, %d) = %r (%s), expected %r" % (arg, width, r, ex, exp)
            back, ex = call(dsw.dna_to_number, r, is_string=False)
            if ex or back != v:
                return True, "dna_to_number(number_to_dna(%r)) = %r" % (arg, back)
        return False, "ok"
    return False, "unknown fn"


def k_succ(p):
    """C13: successor / predecessor arithmetic."""
    import dsw
    k, v = int(p["k"]), int(p["v"])
    N = 4 ** k
    if p.get("warm"):
        for kk in (k + 1, max(1, k - 1)):
            for vv in range(min(4 ** kk, N, 64)):
                call(dsw.obtain_latters, vv, kk)
                call(dsw.obtain_formers, vv, kk)
    la, ex1 = call(dsw.obtain_latters, v, k)
    fo, ex2 = call(dsw.obtain_formers, v, k)
    if ex1 or ex2:
        return True, "raised %s / %s" % (ex1, ex2)
    s = kmer(v, k)
    el = [NUC_index(s[1:] + c) for c in NUC]
    ef = [NUC_index(c + s[:-1]) for c in NUC]
    if [int(x) for x in la] != el:
        return True, "obtain_latters(%d, %d) = %s, k-mer arithmetic gives %s" % (v, k, la, el)
    if [int(x) for x in fo] != ef:
        return True, "obtain_formers(%d, %d) = %s, k-mer arithmetic gives %s" % (v, k, fo, ef)
    nd, ex = call(dsw.number_to_dna, v, k)
    if ex or nd != s:
        return True, "number_to_dna(%d, %d) = %r (%s), expected %r" % (v, k, nd, ex, s)
    dn, ex = call(dsw.dna_to_number, s, is_string=False)
    if ex or dn != v:
        return True, "dna_to_number(%r) = %r (%s)" % (s, dn, ex)
    if p.get("u") is not None:
        u = int(p["u"])
        a = u in [int(x) for x in dsw.obtain_formers(v, k)]
        b = v in [int(x) for x in dsw.obtain_latters(u, k)]
        if a != b:
            return True, "u=%d in formers(v=%d) is %s but v in latters(u) is %s" % (u, v, a, b)
    if p.get("unordered_map"):
        lm = {u: [succ(u, j, k) for j in (3, 1, 2, 0)] for u in range(N)}
        back, exb = call(dsw.latter_map_to_accessor, lm, k)
        if exb or back.tolist() != [[succ(u, j, k) for j in range(4)] for u in range(N)]:
            return True, "latter map with unordered successor lists converts to wrong columns (%s)" % exb
    if p.get("complete"):
        acc = dsw.get_complete_accessor(k)
        if p.get("mutate_between"):
            acc[:, :] = -1
            acc = dsw.get_complete_accessor(k)
        for j in range(4):
            if int(acc[v][j]) != el[j]:
                return True, "complete accessor [%d][%d] = %d, expected %d" % (v, j, int(acc[v][j]), el[j])
    return False, "ok"


def NUC_index(s):
    v = 0
    for c in s:
        v = v * 4 + NUC.index(c)
    return v


KINDS.update({"arith": k_arith, "conv": k_conv, "succ": k_succ})


def vt_ref(s, n):
    vals = [NUC.index(c) for c in s]
    flag = sum(vals) % 4
    asc = sum(i for i in range(len(vals) - 1) if vals[i] < vals[i + 1])
    out = NUC[flag]
    if n > 1:
        val = asc % (4 ** (n - 1))
        out += "".join(NUC[(val // 4 ** (n - 2 - i)) % 4] for i in range(n - 1))
    return out


def k_vt(p):
    """C07: set_vt vs the documented formula, and rejection of single edits by decode."""
    import dsw
    s, n = p["strand"], int(p["n_vt"])
    for pv in p.get("prior") or []:
        call(dsw.set_vt, s, int(pv))
    r, ex = call(dsw.set_vt, s, n)
    if ex is not None:
        return True, "set_vt(%r, %d) raised %s" % (s, n, ex)
    if r != vt_ref(s, n):
        return True, "set_vt(%r, %d) = %r, documented formula gives %r" % (s, n, r, vt_ref(s, n))
    if p.get("edited") is not None:
        s2 = p["edited"]
        r2, ex2 = call(dsw.set_vt, s2, n)
        if ex2 is not None:
            return True, "set_vt(%r, %d) raised %s" % (s2, n, ex2)
        if r2 == r:
            return True, "single edit %r -> %r keeps the check %r" % (s, s2, r)
        acc = dsw.get_complete_accessor(1)
        d, exd = call(dsw.decode, s2, int(p.get("L", 2 * len(s2))), acc, 0, is_faster=bool(p.get("fast")), vt_check=r)
        if exd is None:
            return True, "decode accepted the edited strand %r with the original check %r (fast=%s)" % (s2, r, bool(p.get("fast")))
        if not exd.startswith("ValueError"):
            return True, "decode raised %s instead of ValueError" % exd
    return False, "ok"


KINDS.update({"vt": k_vt})


def filter_ref(cfg, s, only_last):
    """independent reading of the documented LocalBioFilter predicate."""
    k, runs, gc, motifs = cfg["k"], cfg.get("runs"), cfg.get("gc"), cfg.get("motifs")
    obs = s[-k:] if only_last else s
    if any(c not in NUC for c in obs):
        return False
    if runs is not None:
        run = 0
        for i, c in enumerate(obs):
            run = run + 1 if i and obs[i - 1] == c else 1
            if run > runs:
                return False
    if motifs is not None:
        comp = {"A": "T", "C": "G", "G": "C", "T": "A"}
        for mo in motifs:
            rc = "".join(comp.get(c, c) for c in reversed(mo))
            if mo in obs or rc in obs:
                return False
    if gc is not None:
        lo, hi = gc[0] * k, gc[1] * k
        if len(obs) >= k:
            for i in range(len(obs) - k + 1):
                w = obs[i:i + k]
                g = sum(1 for c in w if c in "CG")
                if g > hi or g < lo:
                    return False
        else:
            g = sum(1 for c in obs if c in "CG")
            a = sum(1 for c in obs if c in "AT")
            if g > hi or a > (1 - gc[0]) * k:
                return False
    return True


def k_filter(p):
    import dsw
    c = p["config"]
    f, ex = call(dsw.LocalBioFilter, observed_length=c["k"], max_homopolymer_runs=c.get("runs"), gc_range=c.get("gc"), undesired_motifs=c.get("motifs"))
    if p.get("ctor_only"):
        decidable = (c.get("runs") is None or c["runs"] < c["k"]) and all(len(m) <= c["k"] for m in (c.get("motifs") or []))
        if ex is None and not decidable:
            return True, "constructor accepted a configuration that is not window-decidable: %s" % c
        return False, "constructor verdict ok (%s)" % ex
    if ex is not None:
        return False, "constructor rejected the configuration: outside the property"
    s = p["dna"]
    for only_last in (False, True):
        r, ex = call(f.valid, s, only_last)
        exp = filter_ref(c, s, only_last)
        if ex is not None:
            return True, "valid(%r, only_last=%s) raised %s" % (s, only_last, ex)
        if bool(r) != exp:
            return True, "valid(%r, only_last=%s) = %s, documented predicate gives %s (config %s)" % (s, only_last, r, exp, c)
    return False, "matches"


KINDS.update({"filter": k_filter})


def k_shuffles(p):
    """C18(a): table shape / permutation rows / reproducibility on the real numpy RNG."""
    import dsw
    k, seed = int(p["k"]), p.get("seed")
    np.random.seed(12345)
    po = np.get_printoptions()
    import io, contextlib
    with contextlib.redirect_stdout(io.StringIO()):
        call(dsw.create_random_shuffles, min(k, 2), seed, True)
        call(dsw.create_random_shuffles, min(k, 2), seed, False)
    po2 = np.get_printoptions()
    np.set_printoptions(**po)
    if po2 != po:
        return True, "create_random_shuffles changed numpy's print options (%s): an effect other than on the random state" % sorted(x for x in po if po[x] != po2.get(x))
    t1, ex = call(dsw.create_random_shuffles, k, seed)
    if ex is not None:
        return True, "create_random_shuffles(%d, %r) raised %s" % (k, seed, ex)
    if t1.shape != (4 ** k, 4):
        return True, "table of shape %s" % (t1.shape,)
    for i, row in enumerate(t1.tolist()):
        if sorted(row) != [0, 1, 2, 3]:
            return True, "row %d = %s is not a permutation of 0..3" % (i, row)
    snap = t1.copy()
    np.random.seed(999)
    np.random.random(7)
    t2, ex = call(dsw.create_random_shuffles, k, seed)
    if (t1 != snap).any():
        return True, "the table returned by the first call was rewritten by the second call"
    if ex is None and t2 is not None and np.shares_memory(t1, t2):
        return True, "two calls return the same array object: a caller writing into one table changes the other"
    t1[...] = -1                       # the caller scribbles into the table it was given
    t5, ex5 = call(dsw.create_random_shuffles, k, seed)
    if seed is not None and (ex5 is not None or (t5 != snap).any()):
        return True, "after the caller wrote into a returned table, the same seed gives a different table"
    t1 = snap
    if seed is not None and (ex is not None or (t1 != t2).any()):
        return True, "same seed %r gave different tables from different global random states" % (seed,)
    t3, ex = call(dsw.create_random_shuffles, k, seed, True)
    np.random.seed(999)
    np.random.random(7)
    t4, ex4 = call(dsw.create_random_shuffles, k, seed, True)
    if ex is not None or ex4 is not None:
        return True, "verbose=True raised %s / %s" % (ex, ex4)
    if seed is not None and (t3 != t1).any():
        return True, "verbose=True changes the table"
    return False, "ok"


KINDS.update({"shuffles": k_shuffles})


def k_e2e(p):
    """C02 end to end: build the graph for the filter with the real generator, encode, and judge every window."""
    import dsw
    k, t = int(p["k"]), int(p["t"])
    if p.get("config") is not None:
        c = p["config"]
        call(dsw.find_vertices, k, dsw.LocalBioFilter(observed_length=k, max_homopolymer_runs=c.get("runs"), gc_range=c.get("gc"),
                                                      undesired_motifs=None if c.get("motifs") else ["T"]))
        f = dsw.LocalBioFilter(observed_length=k, max_homopolymer_runs=c.get("runs"), gc_range=c.get("gc"), undesired_motifs=c.get("motifs"))
        ref_cfg = {"k": k, "runs": c.get("runs"), "gc": c.get("gc"), "motifs": c.get("motifs")}
        judge = lambda w: filter_ref(ref_cfg, w, True)
    else:
        acc_set = set(p["accepted"])

        class F(dsw.DefaultBioFilter):
            def __init__(self):
                super().__init__(screen_name="user")

            def valid(self, dna_string):
                return dna_string in acc_set
        f = F()
        judge = lambda w: w in acc_set
    try:
        mask = dsw.find_vertices(k, f)
        vs, acc = dsw.connect_coding_graph(k, mask, t)
    except ValueError as ex:
        return False, "no graph: %s" % ex
    bits = np.array(p["bits"], dtype=int)
    table = np.array(p["table"], dtype=int) if p.get("table") is not None else None
    start = int(p["start"])
    if not (np.array(acc[start]) >= 0).any():
        return False, "start vertex not retained"
    r, ex = call(dsw.encode, bits, acc, start, is_faster=bool(p.get("fast")), shuffles=table)
    if ex is not None:
        if "Not implementation" in ex:
            return False, "out-degree 3 in fast mode"
        return True, "encode failed on the generated graph: %s" % ex
    text = kmer(start, k) + r
    for i in range(len(r) + 1):
        w = text[i:i + k]
        if not judge(w):
            return True, "window %r (position %d) of %r + %r fails the filter" % (w, i, kmer(start, k), r)
    if p.get("config") is not None:
        for s, nm in ((r, "strand alone"), (text, "start k-mer + strand")):
            if not f.valid(s, only_last=False):
                return True, "whole-sequence check fails on the %s %r" % (nm, s)
    return False, "strand %r obeys the filter" % r


KINDS.update({"e2e": k_e2e})


def _graph_rows(name):
    import importlib.util, os, sys
    # the graph family lives in checks/repair.py, which needs z3: keep a z3-free copy of the definitions here
    k = int(name.rsplit("-", 1)[1])
    GC2 = [[-1, -1, -1, -1], [4, -1, -1, 7], [8, -1, -1, 11], [-1, -1, -1, -1], [-1, 1, 2, -1], [-1, -1, -1, -1], [-1, -1, -1, -1], [-1, 13, 14, -1],
           [-1, 1, 2, -1], [-1, -1, -1, -1], [-1, -1, -1, -1], [-1, 13, 14, -1], [-1, -1, -1, -1], [4, -1, -1, 7], [8, -1, -1, 11], [-1, -1, -1, -1]]
    N = 4 ** k
    if name == "complete-1":
        return k, induced(1, [True] * 4)
    if name == "ACG-1":
        return k, induced(1, [True, True, True, False])
    if name == "AC-1":
        return k, induced(1, [True, True, False, False])
    if name == "chain-1":
        return k, [[0, 1, -1, -1], [-1, -1, 2, -1], [0, -1, -1, -1], [-1, -1, -1, -1]]
    if name == "gc-balanced-2":
        return k, GC2
    if name == "no-homopolymer-2":
        m = [1] * 16
        for v in (0, 5, 10, 15):
            m[v] = 0
        return k, induced(2, gfp(2, m, 2))
    if name == "complete-2":
        return k, induced(2, [True] * 16)
    if name == "mixed-2":
        return k, induced(2, gfp(2, [1, 1, 0, 1, 1, 0, 1, 0, 0, 1, 1, 1, 1, 0, 1, 0], 1))
    if name in ("sparse-2", "loop-2"):
        m = [0] * 16
        for v in ((1, 6, 8, 3, 12) if name == "sparse-2" else (1, 6, 8, 10, 15)):
            m[v] = 1
        return k, induced(2, gfp(2, m, 1))
    if name.startswith("no-repeat-"):
        m = []
        for v in range(N):
            d = [(v // 4 ** (k - 1 - i)) % 4 for i in range(k)]
            m.append(0 if any(d[i] == d[i + 1] for i in range(k - 1)) else 1)
        return k, induced(k, gfp(k, m, 2))
    raise KeyError(name)


def _is_walk(acc, start, s):
    v = start
    for c in s:
        if c not in NUC or acc[v][NUC.index(c)] < 0:
            return False
        v = acc[v][NUC.index(c)]
    return True


def warm_graph(k, mode):
    N = 4 ** k
    return [[((v * 4 + j) % N if (mode == "full" or (v + j) % 2 == 0) else -1) for j in range(4)] for v in range(N)]


def warm_calls(k, mode):
    """the warm-up repairs of checks/repair.py (kept textually identical)"""
    out = []
    rows = warm_graph(k, mode)
    for v0 in range(4 ** k):
        v, strand = v0, ""
        for i in range(2 * k + 2):
            live = [j for j in range(4) if rows[v][j] >= 0]
            j = live[(i + v0) % len(live)]
            strand += "ACGT"[j]
            v = rows[v][j]
        out.append((strand, rows, v0, k))
    out.append(("ACGTTGCATCGAGT"[:3 * (k + 1) + 2], warm_graph(k + 1, "full"), 0, k + 1))
    return out


def k_repair(p):
    """C08 / C09 / C10 on a concrete input."""
    import dsw
    if p.get("rows") is not None:
        k, rows = int(p["k"]), p["rows"]            # the harness sends the graph itself; the name is informative
    else:
        k, rows = _graph_rows(p["graph"])
    acc = np.array(rows, dtype=int)
    s, start = p["strand"], int(p["start"])
    chk = p.get("vt_check")
    if p.get("warmup"):
        for strand, wrows, wstart, kk in warm_calls(k, p["warmup"] if p["warmup"] in ("full", "sparse") else "full"):
            call(dsw.repair_dna, strand, np.array(wrows, dtype=int), wstart, kk, has_indel=True)
    r, ex = call(dsw.repair_dna, s, acc, start, k, vt_check=chk, has_indel=bool(p.get("has_indel", True)), heap_size=p.get("heap_size", 1e9))
    if ex is not None:
        return True, "repair_dna(%r, start=%d) raised %s" % (s, start, ex)
    if not (isinstance(r, tuple) and len(r) == 2 and isinstance(r[0], list) and isinstance(r[1], tuple) and len(r[1]) == 4):
        return True, "malformed result %r" % (r,)
    cands, stats = r
    if any(not isinstance(c, str) for c in cands):
        return True, "non-string candidate"
    if any(cands[i] >= cands[i + 1] for i in range(len(cands) - 1)):
        return True, "candidate list %s is not sorted and duplicate-free" % cands
    if chk is not None:
        for c in cands:
            if all(ch in NUC for ch in c) and vt_ref(c, len(chk)) != chk:
                return True, "candidate %r does not reproduce the supplied check %r" % (c, chk)
    if _is_walk(rows, start, s) and len(s) >= k:
        exp = [s] if (chk is None or vt_ref(s, len(chk)) == chk) else []
        if cands != exp or stats[0] != 0:
            return True, "clean walk %r: returned %s with %d detected errors, expected %s / 0" % (s, cands, stats[0], exp)
    if p.get("orig") is not None:
        w, nedits = p["orig"], int(p.get("edits", 1))
        detected = stats[0]
        if nedits == 1 and (detected >= 1) != (not _is_walk(rows, start, s)):
            return True, "single edit %r -> %r: detected=%d but corrupted strand is%s a walk" % (w, s, detected, "" if _is_walk(rows, start, s) else " not")
        if detected == nedits and w not in cands:
            return True, "original %r is not among the candidates %s of %r (detected %d = edits)" % (w, cands[:6], s, detected)
    return False, "ok: %d candidates, stats %s" % (len(cands), stats)


KINDS.update({"repair": k_repair})


def k_repr(p):
    """C14: the three graph representations on a concrete arc subset."""
    import dsw
    rows = p["acc"]
    acc = np.array(rows, dtype=int)
    N = len(rows)
    k = int(round(np.log(N) / np.log(4)))
    live = [v for v in range(N) if any(x >= 0 for x in rows[v])]
    lm, ex = call(dsw.accessor_to_latter_map, acc.copy())
    if ex:
        return True, "accessor_to_latter_map raised %s" % ex
    exp_lm = {v: [x for x in rows[v] if x >= 0] for v in live}
    got_lm = {int(a): [int(x) for x in b] for a, b in lm.items()}
    if got_lm != exp_lm:
        return True, "latter map %s != expected %s" % (got_lm, exp_lm)
    back, ex = call(dsw.latter_map_to_accessor, lm, k)
    if ex or back.tolist() != rows:
        return True, "accessor -> latter map -> accessor differs (%s)" % ex
    back, ex = call(dsw.latter_map_to_accessor, {v: list(reversed(exp_lm[v])) for v in live}, k)
    if ex or back.tolist() != rows:
        return True, "latter map with reordered successor lists converts to a different accessor (%s)" % ex
    mx, ex = call(dsw.accessor_to_adjacency_matrix, acc.copy())
    if ex:
        return True, "accessor_to_adjacency_matrix raised %s" % ex
    exp_m = [[1 if v in [x for x in rows[u] if x >= 0] else 0 for v in range(N)] for u in range(N)]
    if mx.tolist() != exp_m:
        return True, "adjacency matrix differs from the arc set"
    back, ex = call(dsw.adjacency_matrix_to_accessor, mx)
    if ex or back.tolist() != rows:
        return True, "accessor -> matrix -> accessor differs (%s)" % ex
    vs, ex = call(dsw.obtain_vertices, acc.copy())
    if ex or [int(x) for x in vs] != live:
        return True, "obtain_vertices = %s, vertices with arcs %s" % (vs, live)
    for root in p.get("roots", [0]):
        for d in range(0, int(p.get("depth", 3)) + 1):
            cur = [root]
            for _ in range(d):
                cur = [x for u in cur for x in rows[u] if x >= 0]
            a, ex1 = call(dsw.obtain_leaf_vertices, root, d, accessor=acc.copy())
            b, ex2 = call(dsw.obtain_leaf_vertices, root, d, latter_map=lm)
            if {int(x): [int(y) for y in z] for x, z in lm.items()} != exp_lm:
                return True, "leaf query (root=%d depth=%d) modified the latter map it was given" % (root, d)
            if ex1 or ex2:
                return True, "obtain_leaf_vertices raised %s / %s" % (ex1, ex2)
            if sorted(int(x) for x in a) != sorted(cur) or sorted(int(x) for x in b) != sorted(cur):
                return True, "leaf query root=%d depth=%d: accessor %s, latter map %s, walk end points %s" % (root, d, sorted(int(x) for x in a), sorted(int(x) for x in b), sorted(cur))
    if p.get("illegal") is not None:
        u, v = p["illegal"]
        bad = np.array(exp_m, dtype=int)
        bad[u][v] = 1
        r, ex = call(dsw.adjacency_matrix_to_accessor, bad)
        if ex is None or not ex.startswith("ValueError"):
            return True, "matrix with the illegal arc %d -> %d was not rejected with ValueError (%s)" % (u, v, ex)
    return False, "ok"


KINDS.update({"repr": k_repr})


def ref_scores(rows, k, has_insertion, has_deletion):
    """independent reading of the intersection score: leaf SETS at depth k-1 below each successor."""
    N = len(rows)
    succs = [[x for x in r if x >= 0] for r in rows]

    def leaves(v, d):
        cur = [v]
        for _ in range(d):
            cur = [x for u in cur for x in succs[u]]
        return set(cur)
    sc = [[0] * 4 for _ in range(N)]
    for c in range(N):
        S = succs[c]
        if not S:
            continue
        B = [leaves(s, k - 1) for s in S]
        for i in range(len(S)):
            for j in range(i + 1, len(S)):
                u = len(B[i] | B[j])
                sc[c][S[i] % 4] += u
                sc[c][S[j] % 4] += u
        if has_insertion:
            for i, s in enumerate(S):
                for t in succs[s]:
                    sc[c][s % 4] += len(B[i] | leaves(t, k - 1))
        if has_deletion:
            D = leaves(c, k - 1)
            for i, s in enumerate(S):
                sc[c][s % 4] += len(B[i] | D)
    return sc


def k_nasty(p):
    """C19: a sequence of remove_nasty_arc calls on a concrete graph."""
    import dsw
    rows = [list(r) for r in p["acc"]]
    N = len(rows)
    k = int(round(np.log(N) / np.log(4)))
    ins, dele = bool(p.get("has_insertion", True)), bool(p.get("has_deletion", True))
    acc = np.array(rows, dtype=int)
    lm = {v: [x for x in rows[v] if x >= 0] for v in range(N) if any(x >= 0 for x in rows[v])}
    for step in range(int(p.get("steps", 1))):
        before = acc.copy()
        sc = ref_scores(before.tolist(), k, ins, dele)
        got_sc, ex = call(dsw.calculate_intersection_score, {a: list(b) for a, b in lm.items()}, k, ins, dele)
        if ex is None:
            if got_sc.shape != (N, 4):
                return True, "score table of shape %s" % (got_sc.shape,)
            if got_sc.tolist() != sc:
                return True, "step %d: intersection scores differ from the definition at %s" % (step, [(v, got_sc[v].tolist(), sc[v]) for v in range(N) if got_sc[v].tolist() != sc[v]][:3])
        r, ex = call(dsw.remove_nasty_arc, acc, lm, 0, ins, dele)
        if ex is not None:
            return False, "step %d: call raised %s (sequence ends)" % (step, ex)
        acc2, lm2, arc, scores = r
        changed = [(v, j) for v in range(N) for j in range(4) if before[v][j] != acc2[v][j]]
        if len(changed) != 1:
            return True, "step %d: %d accessor entries changed: %s" % (step, len(changed), changed[:4])
        v, j = changed[0]
        if before[v][j] < 0 or acc2[v][j] != -1:
            return True, "step %d: changed entry (%d,%d) %d -> %d is not the removal of an existing arc" % (step, v, j, before[v][j], acc2[v][j])
        mx = max(max(r_) for r_ in sc)
        if sc[v][j] != mx:
            return True, "step %d: removed arc %d -> %d has score %d, the maximum is %d" % (step, v, before[v][j], sc[v][j], mx)
        if (int(arc[0]), int(arc[1])) != (v, int(before[v][j])):
            return True, "step %d: reported arc %s, removed arc (%d, %d)" % (step, arc, v, before[v][j])
        exp_lm = {u: [x for x in acc2[u].tolist() if x >= 0] for u in range(N) if (acc2[u] >= 0).any()}
        got_lm = {int(a): [int(x) for x in b] for a, b in lm2.items()}
        if got_lm != exp_lm:
            return True, "step %d: latter map %s and accessor (map %s) describe different graphs" % (step, got_lm, exp_lm)
        acc, lm = acc2, lm2
    return False, "ok"


KINDS.update({"nasty": k_nasty})


def _norm(x):
    if isinstance(x, np.ndarray):
        return ("arr", x.dtype.kind, x.tolist())
    if isinstance(x, (np.integer,)):
        return int(x)
    if isinstance(x, (np.floating, float)):
        return round(float(x), 12)
    if isinstance(x, (np.bool_,)):
        return bool(x)
    if isinstance(x, (list, tuple)):
        return [_norm(y) for y in x]
    if isinstance(x, dict):
        return sorted((_norm(a), _norm(b)) for a, b in x.items())
    return x


def _build_env(spec):
    import dsw
    env = {}
    for name, (kind, val) in spec.items():
        if kind == "arr":
            env[name] = np.array(val["data"], dtype={"bool": bool, "int64": int, "float64": float}[val["dtype"]])
        elif kind == "filter":
            env[name] = dsw.LocalBioFilter(**val)
        elif kind == "dict":
            env[name] = {int(a): list(b) for a, b in val}
        else:
            env[name] = val
    return env


def _run_history(scenario, spec, isolate):
    import importlib
    import contextlib, io
    import dsw
    import scenarios
    if isolate:
        for m in ("dsw.operation", "dsw.graphized", "dsw.biofilter", "dsw.spiderweb", "dsw"):
            importlib.reload(importlib.import_module(m))
        import dsw  # noqa
    env = _build_env(spec)
    out = {}
    last = None
    kept = None

    def edit(acc):
        for v in range(acc.shape[0]):
            live = [j for j in range(4) if acc[v][j] >= 0]
            if len(live) >= 2:
                acc[v, live[-1]] = -1
                return
    for label, fn, a, kw in scenarios.SCENARIOS[scenario](env):
        if fn is None:
            if label == "TRIM-LAST-RESULT":
                if not isolate and isinstance(last, np.ndarray):
                    last[...] = -1
            elif label == "DRAW":
                if not isolate:
                    np.random.random(5)
            elif label == "KEEP-LAST":
                kept = (last, _norm(last))
            elif label == "CHECK-KEPT":
                if not isolate and kept is not None and _norm(kept[0]) != kept[1]:
                    out["CHECK-KEPT"] = ("ok", "REWRITTEN")
            elif label == "EDIT-ACC-A":
                edit(env["acc"])
            elif label == "RECONF-FILTER-A":
                env["filter"].undesired_motifs = list(env["filter_b"].undesired_motifs)
            elif label.startswith("SEED-"):
                np.random.seed(int(label[5:]))
            continue
        if isolate:
            for m in ("dsw.operation", "dsw.graphized", "dsw.biofilter", "dsw.spiderweb", "dsw"):
                importlib.reload(importlib.import_module(m))
            import dsw  # noqa
            env2 = _build_env(spec)
            if label.endswith("-edited"):
                edit(env2["acc"])
            if label.endswith("-reconf"):
                env2["filter"].undesired_motifs = list(env2["filter_b"].undesired_motifs)
            a2 = scenarios.SCENARIOS[scenario](env2)
            a, kw = [(x[2], x[3]) for x in a2 if x[0] == label][0]
        target = dsw
        for part in fn.split("."):
            target = getattr(target, part)
        buf = io.StringIO()
        with contextlib.redirect_stdout(buf):
            r, ex = call(target, *a, **kw)
        last = r
        out[label] = ("exc", ex.split(":")[0]) if ex else ("ok", _norm(r))
    return out, env


def k_history(p):
    """C20: a call history on shared arguments vs the same calls in isolation (modules reloaded, fresh arguments)."""
    scenario, spec = p["scenario"], p["env"]
    hist, env = _run_history(scenario, spec, False)
    fresh = _build_env(spec)
    import scenarios as _sc
    if any(st[0] == "RECONF-FILTER-A" for st in _sc.SCENARIOS[scenario](_build_env(spec))):
        fresh["filter"].undesired_motifs = list(fresh["filter_b"].undesired_motifs)
    if any(st[0] == "EDIT-ACC-A" for st in _sc.SCENARIOS[scenario](_build_env(spec))):
        a_ = fresh["acc"]
        for v in range(a_.shape[0]):
            live = [j for j in range(4) if a_[v][j] >= 0]
            if len(live) >= 2:
                a_[v, live[-1]] = -1
                break
    for name in spec:
        if spec[name][0] == "filter":
            if vars(env[name]) != vars(fresh[name]):
                return True, "shared filter object was modified by the history"
        elif _norm(env[name]) != _norm(fresh[name]):
            return True, "shared argument %r was modified by the history: %s -> %s" % (name, str(_norm(fresh[name]))[:120], str(_norm(env[name]))[:120])
    if hist.get("CHECK-KEPT") == ("ok", "REWRITTEN"):
        return True, "a result handed out by an earlier call was rewritten by a later call"
    iso, _ = _run_history(scenario, spec, True)
    for label in hist:
        if label == "CHECK-KEPT":
            continue
        if hist[label] != iso[label]:
            return True, "call %r returns %s in the history but %s on fresh arguments in a fresh process" % (label, str(hist[label])[:160], str(iso[label])[:160])
    if scenario == "verbose":
        for label in hist:
            if label.startswith("verbose-"):
                q = "quiet-" + label[8:]
                if hist[label][0] == "exc" and hist[q][0] != "exc":
                    return True, "verbose=True raises %s (call %s)" % (hist[label][1], label)
                if hist[label] != hist[q]:
                    return True, "verbose=True changes the result of call %s" % label
    return False, "history of %d calls is equal to isolated calls" % len(hist)


KINDS.update({"history": k_history})


def k_capacity(p):
    """C17 on a concrete graph: upper bound 2, arc-less 0, regular graphs log2 d (deterministic mode), and -- when the graph
    meets the structural precondition -- accuracy of the requested mode against numpy's spectral radius."""
    import dsw
    rows = p["acc"]
    acc = np.array(rows, dtype=int)
    N = len(rows)
    repeats = int(p.get("repeats", 1))
    np.random.seed(int(p.get("seed", 0)))
    if p.get("prior") is not None:
        call(dsw.approximate_capacity, np.array(p["prior"], dtype=int), repeats=repeats)
    r, ex = call(dsw.approximate_capacity, acc, repeats=repeats)
    if ex is not None:
        return True, "approximate_capacity raised %s" % ex
    if acc.tolist() != rows:
        return True, "approximate_capacity modified its accessor argument"
    r = float(r)
    if r > 2 + 1e-9:
        return True, "capacity %r exceeds 2 bits per nucleotide" % r
    if all(x < 0 for row in rows for x in row):
        return (True, "arc-less graph gives %r" % r) if r != 0.0 else (False, "0 for the arc-less graph")
    live = [v for v in range(N) if any(x >= 0 for x in rows[v])]
    degs = set(sum(1 for x in rows[v] if x >= 0 and x in live) for v in live)
    if repeats == 1 and len(degs) == 1:
        d = degs.pop()
        if abs(r - np.log2(d)) > 1e-12:
            return True, "every live vertex has %d live successors but the deterministic mode returns %r, not log2 %d" % (d, r, d)
    if p.get("want") == "accuracy":
        import networkx as nx
        A = np.zeros((N, N))
        G = nx.DiGraph()
        for v in range(N):
            for x in rows[v]:
                if x >= 0:
                    A[v][x] = 1
                    G.add_edge(v, x)
        mods = sorted(abs(np.linalg.eigvals(A)), reverse=True)
        sccs = [c for c in nx.strongly_connected_components(G) if len(c) > 1 or any(G.has_edge(u, u) for u in c)]
        if len(sccs) != 1 or not nx.is_aperiodic(G.subgraph(list(sccs)[0])) or mods[1] > 0.9 * mods[0]:
            return False, "structural precondition (single aperiodic SCC, spectral gap) not met: outside the property"
        if abs(r - np.log2(mods[0])) > 1e-4:
            return True, "repeats=%d returns %.6f, log2 of the spectral radius is %.6f" % (repeats, r, np.log2(mods[0]))
    return False, "ok (%r)" % r


KINDS.update({"capacity": k_capacity})


def k_bijection(p):
    """C18(b): the digit -> live-arc map induced by a table at the start vertex is a bijection (two messages, first step)."""
    import dsw
    acc = np.array(p["acc"], dtype=int)
    start, fast = int(p["start"]), bool(p.get("fast"))
    table = np.array(p["table"], dtype=int) if p.get("table") is not None else None
    firsts, digits = [], []
    deg = int((acc[start] >= 0).sum())
    for bits in (p["bits"], p["bits2"]):
        r, ex = call(dsw.encode, np.array(bits, dtype=int), acc, start, is_faster=fast, shuffles=table)
        if ex is not None or not r:
            return False, "encode did not produce a first nucleotide (%s): outside the property" % ex
        firsts.append(NUC.index(r[0]))
        if fast:
            digits.append(bits[0] * 2 + (bits[1] if len(bits) > 1 else 0) if deg == 4 else (bits[0] if deg == 2 else 0))
        else:
            val = int("".join(map(str, bits)), 2) if bits else 0
            digits.append(val % deg if deg >= 2 else 0)
    for j in firsts:
        if acc[start][j] < 0:
            return True, "first nucleotide %s is not a live arc of vertex %d" % (NUC[j], start)
    if (firsts[0] == firsts[1]) != (digits[0] == digits[1]):
        return True, "digits %s are mapped to arcs %s at vertex %d (row %s, table row %s): not a bijection" % (
            digits, [NUC[j] for j in firsts], start, acc[start].tolist(), None if table is None else table[start].tolist())
    return False, "bijective on this pair"


KINDS.update({"bijection": k_bijection})


GEN_SEQ = [(2, [0, 1, 1, 0, 1, 0, 0, 1, 1, 0, 0, 1, 0, 1, 1, 0], 1), (3, [1 if (v * 7 + 3) % 5 else 0 for v in range(64)], 1),
           (2, [0, 1, 1, 0, 1, 0, 0, 1, 1, 0, 0, 1, 0, 1, 1, 0], 1), (1, [1, 1, 0, 1], 1), (3, [1 if (v * 7 + 3) % 5 else 0 for v in range(64)], 2),
           (2, [1] * 16, 2), (1, [1, 1, 0, 1], 2), (2, [1, 1, 0, 0, 1, 1, 0, 0, 0, 0, 0, 0, 0, 0, 0, 0], 1)]


def k_gen_seq(p):
    """C03 history: generator calls with different observed lengths in one process."""
    import dsw
    for i, (k, mask, t) in enumerate(GEN_SEQ):
        keep = gfp(k, mask, t)
        r, ex = call(dsw.connect_coding_graph, k, np.array(mask), t)
        exp = induced(k, keep) if any(keep) else None
        got = r[1].tolist() if ex is None else (None if ex.startswith("ValueError") else ex)
        if got != exp:
            return True, "call %d of the sequence (k=%d, t=%d) differs from the largest closed sub-graph (%s)" % (i, k, t, ex)
    return False, "sequence ok"


KINDS.update({"gen_seq": k_gen_seq})


def k_coding_edit(p):
    """C01 history: round trip, in-place thinning of the shared graph object, round trip again."""
    import dsw
    acc = np.array(p["acc"], dtype=int)
    bits = np.array(p["bits"], dtype=int)
    start, fast = int(p["start"]), bool(p.get("fast"))
    for stage in (0, 1):
        if stage == 1:
            for v in range(len(acc)):
                lv = [j for j in range(4) if acc[v][j] >= 0]
                if len(lv) >= 2:
                    acc[v, lv[-1]] = -1
                    break
        s, ex = call(dsw.encode, bits, acc, start, is_faster=fast)
        if ex is not None:
            if "out-degree" in ex or "Not implementation" in ex:
                return False, "precondition false at stage %d" % stage
            return True, "stage %d: encode raised %s" % (stage, ex)
        d, ex = call(dsw.decode, s, len(bits), acc, start, is_faster=fast)
        if ex is not None or [int(x) for x in d] != [int(x) for x in bits]:
            return True, "stage %d (%s the in-place edit): decode(encode(m)) gives %s (%s) for m = %s, strand %r" % (stage, "after" if stage else "before", None if d is None else [int(x) for x in d], ex, bits.tolist(), s)
    return False, "both round trips ok"


KINDS.update({"coding_edit": k_coding_edit})


FIND_HISTORY = [dict(runs=1, gc=None, motifs=None), dict(runs=None, gc=[0.5, 0.5], motifs=None), dict(runs=None, gc=None, motifs=["AC"]), dict(runs=1, gc=None, motifs=["G"]),
                dict(runs=None, gc=[0.0, 0.5], motifs=None), dict(runs=None, gc=None, motifs=["T"])]


def k_find_history(p):
    import dsw
    k = int(p["k"])
    N = 4 ** k
    for i, c in enumerate(FIND_HISTORY):
        f = dsw.LocalBioFilter(observed_length=k, max_homopolymer_runs=c["runs"], gc_range=c["gc"], undesired_motifs=c["motifs"])
        exp = [filter_ref(dict(c, k=k), kmer(v, k), True) for v in range(N)]
        r, ex = call(dsw.find_vertices, k, f)
        got = [bool(x) for x in r] if ex is None else [False] * N
        del f
        if got != exp:
            return True, "call %d of the history: mask does not mirror the filter passed in this call (config %s)" % (i, c)
    f = dsw.LocalBioFilter(observed_length=k, undesired_motifs=["A"])
    dsw.find_vertices(k, f)
    f.undesired_motifs = ["C"]
    exp = [filter_ref(dict(k=k, runs=None, gc=None, motifs=["C"]), kmer(v, k), True) for v in range(N)]
    got = [bool(x) for x in dsw.find_vertices(k, f)]
    if got != exp:
        return True, "re-configured filter object gets a stale mask"
    return False, "history ok"


KINDS.update({"find_history": k_find_history})
