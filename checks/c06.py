"""C06 -- decode accepts exactly the walks of the graph (and a matching check), ValueError otherwise."""
import sys

import z3

from checks import coding, common, c05
from symx import core, strs, oracles, stubs, symnp
from symx.core import zint, SymInt

PID = "C06"
TITLE = "Decoding accepts exactly the strands that are walks of the graph"
EXPLANATION = ("real dsw.decode on an arbitrary symbolic string over {A,C,G,T,N,a,-} x all arc subsets x all starts "
               "(x optional symbolic check string): returns L bits  <=>  independent z3 walk unfolding AND independent VT "
               "formula; every other outcome must be ValueError")
STUBS = [stubs.STUB_NOTE, "Monitor.__call__ has an empty body"]
ASSUMPTIONS = ["fast mode: graphs without out-degree 3 and strings whose walkable prefix carries at most L bits (the property's "
               "own precondition)", "check strings have length >= 1 over A,C,G,T"]
make_loader = coding.make_loader
ALPHABET = "ACGTNa-"
BUDGET_S = {"quick": 1500, "thorough": 1500}


def jobs(tier):
    J = []

    def add(**kw):
        J.append(kw)
    if tier == "quick":
        add(k=1, n=0, L=2, fast=False, nvt=0)
        add(k=1, n=2, L=0, fast=False, nvt=0)
        add(k=1, n=2, L=0, fast=False, nvt=0, real_arith=True)
        add(k=1, n=2, L=2, fast=False, nvt=0, real_arith=True)
        add(k=1, n=2, L=3, fast=False, nvt=0)
        add(k=1, n=2, L=4, fast=True, nvt=0)
        # fast mode with FEW bits: symbols after the last information-carrying nucleotide must still be walked and validated
        add(k=1, n=2, L=0, fast=True, nvt=0)
        add(k=1, n=2, L=2, fast=True, nvt=0)
        add(k=1, n=3, L=1, fast=True, nvt=0)
        add(k=1, n=2, L=3, fast=False, nvt=2)
        add(k=1, n=1, L=2, fast=True, nvt=1)
        add(k=2, n=2, L=3, fast=False, nvt=0)
    else:
        add(k=1, n=2, L=0, fast=False, nvt=0)
        add(k=1, n=3, L=1, fast=False, nvt=0)
        for n in (0, 1, 2, 3):
            add(k=1, n=n, L=max(2 * n, 1), fast=False, nvt=0)
            add(k=1, n=n, L=max(2 * n, 1), fast=True, nvt=0)
        add(k=1, n=2, L=0, fast=True, nvt=0)
        add(k=1, n=3, L=2, fast=True, nvt=0)
        add(k=1, n=3, L=1, fast=True, nvt=0)
        add(k=2, n=3, L=2, fast=True, nvt=0)
        add(k=1, n=4, L=5, fast=False, nvt=0)
        add(k=1, n=3, L=4, fast=False, nvt=3)
        add(k=1, n=2, L=4, fast=True, nvt=2)
        add(k=1, n=3, L=4, fast=False, nvt=1)
        add(k=2, n=2, L=4, fast=False, nvt=0)
        add(k=2, n=3, L=5, fast=False, nvt=0)
        add(k=2, n=2, L=4, fast=True, nvt=0)
        add(k=2, n=2, L=4, fast=False, nvt=2)
    return J


def bounds(tier):
    js = jobs(tier)
    return {"orders_k": sorted(set(j["k"] for j in js)), "max_string_length": max(j["n"] for j in js), "alphabet": ALPHABET,
            "check_lengths": sorted(set(j["nvt"] for j in js)), "graphs": "all arc subsets per order (symbolic)",
            "outside": "k >= 3, longer strings, accessors that are not de Bruijn arc subsets"}


def body(e, L, cfg):
    g, start, tab, s, codes = c05.dec_universe(e, cfg, ALPHABET)
    Lb, fast, nvt = cfg["L"], bool(cfg.get("fast")), cfg.get("nvt", 0)
    chk, chk_codes = None, None
    if nvt:
        chk, chk_codes, cc = oracles.sym_string(nvt, "v", "ACGT")
        e.assume(cc)
    oks, vs = oracles.walk_terms(g, start, codes)
    walk = oks[-1] if oks else z3.BoolVal(True)
    if fast:
        e.assume(z3.And([g.deg(v) != 3 for v in range(g.N)]))
        degs = [g.sel(vs[i], lambda u: g.deg(u)) for i in range(len(codes))]
        carried = z3.Sum([z3.If(oks[i], z3.If(degs[i] == 4, 2, z3.If(degs[i] == 2, 1, 0)), 0) for i in range(len(codes))]) if codes else z3.IntVal(0)
        e.assume(carried <= Lb)
    accept = walk
    if nvt:
        pure = z3.And([oracles.nuc_index(c) >= 0 for c in codes]) if codes else z3.BoolVal(True)
        ref = oracles.vt_terms(codes, nvt)
        accept = z3.And(walk, pure, z3.And([a == b for a, b in zip(ref, chk_codes)]))
    acc = g.accessor()
    # history: an earlier decode on a DIFFERENT graph of the same order must not influence this one (caches keyed by size / vertex)
    try:
        L.decode(strs.K("AC"), 4, L.get_complete_accessor(cfg["k"]), 0, is_faster=fast)
    except Exception:
        pass

    def cex(m):
        c = c05.dec_cex(m, g, start, None, codes, cfg, oracles.model_string(m, chk_codes) if nvt else None)
        c["check_value"] = False
        c["warmup"] = True
        return c
    try:
        out = L.decode(s, Lb, acc, SymInt(start), is_faster=fast, vt_check=chk)
    except core.Abort:
        raise
    except ValueError as ex:
        r, m = e.check(accept)
        if r == "sat":
            return {"status": "viol", "why": "decode raised ValueError (%s) on an acceptable strand" % ex, "cex": cex(m)}
        if r != "unsat":
            return {"status": "inconclusive", "why": "solver unknown"}
        mm = e._ensure_model()
        return {"status": "ok", "sample": {"outcome": "ValueError", "strand": oracles.model_string(mm, codes), "start": mm.eval(start, model_completion=True).as_long()}}
    except Exception as ex:
        r, m = e.check()
        if r != "sat":
            return {"status": "skip"}
        return {"status": "viol", "why": "decode raised %s: %s" % (type(ex).__name__, ex), "cex": cex(m)}
    outs = out.fix_len().elems()
    if len(outs) != Lb:
        r, m = e.check()
        return {"status": "viol", "why": "decode returned %d bits" % len(outs), "cex": cex(m)}
    r, m = e.check(z3.Not(accept))
    if r == "sat":
        return {"status": "viol", "why": "decode accepted a strand that is not a walk / whose check does not match", "cex": cex(m)}
    if r != "unsat":
        return {"status": "inconclusive", "why": "solver unknown"}
    mm = e._ensure_model()
    return {"status": "ok", "sample": {"outcome": "returned", "strand": oracles.model_string(mm, codes), "start": mm.eval(start, model_completion=True).as_long(),
                                       "graph": g.model_rows(mm) if g.N <= 16 else None}}


def replay(cex, repo_dir):
    return common.run_replay(cex["kind"], cex, repo_dir)


CANARIES = [
    {"name": "membership-test-dropped-at-degree-1", "cfg": dict(k=1, n=1, L=2, fast=False, nvt=0),
     "patches": {"spiderweb": [("                if nucleotide == used_nucleotide:\n                    vertex_index = accessor[vertex_index][nucleotides.index(nucleotide)]\n                else:\n                    raise ValueError(\"At least one error is found in this DNA sequence!\")",
                                "                if True:\n                    vertex_index = accessor[vertex_index][used_indices[0]]")]}},
]

if __name__ == "__main__":
    sys.exit(common.main("checks.c06"))
