"""C08 -- repair recovers the original strand for separated interior edits."""
import sys

import z3

from checks import common, repair, gen
from symx import core, symnp, oracles, strs

PID = "C08"
TITLE = "Repair recovers the original strand for separated interior edits"
EXPLANATION = ("real repair_dna on a corrupted strand c = edit(w): w is an arbitrary WALK of the graph (symbolic string constrained by an independent "
               "walk unfolding), the edit is a substitution / insertion / deletion at each position of [k, n-2k) with a symbolic replacement "
               "nucleotide (two edits at distance >= 3k+2 in thorough), indel handling on (and off for substitutions), unrestrictive heap, check of w "
               "absent or supplied (independent VT formula): when the number of detected errors equals the number of edits, w must be among the "
               "candidates (z3 disjunction over the returned strings); a single edit is detected <=> c is not a walk")
STUBS = []
ASSUMPTIONS = ["graphs are concrete members of a small family of generated graphs (see C10); walk, replacement nucleotide and check are symbolic; "
               "edit positions and kinds are enumerated as separate explorations"]
BUDGET_S = {"quick": 1500, "thorough": 1500}


def make_loader(cfg):
    return {"_key": "real"}


def jobs(tier):
    J = []

    def add(graph, n, start, edits, has_indel=True, nvt=0):
        J.append(dict(graph=graph, n=n, start=start, edits=edits, has_indel=has_indel, nvt=nvt))
    if tier == "quick":
        for kind in "SID":
            add("ACG-1", 5, 0, [(kind, 1)])
        add("ACG-1", 5, 1, [("S", 2)], nvt=2)
        add("complete-1", 4, 0, [("S", 1)], has_indel=False)
        for kind in "SID":
            add("gc-balanced-2", 7, 1, [(kind, 2)])
        add("gc-balanced-2", 7, 7, [("S", 2)], nvt=2)
        add("gc-balanced-2", 7, 4, [("S", 2)], has_indel=False)
        # graphs where an edit can be detected LATE (the replacement is a live arc, a later nucleotide is not) and where the walk
        # can sit on a self-loop before the edit (AA, GG in mixed-2)
        add("mixed-2", 7, 0, [("S", 2)], has_indel=True)
        add("mixed-2", 7, 0, [("S", 2)], has_indel=False)
        # two edits at the minimum distance 3k+2 on a GENERATED graph with few walks whose vertices have different arc sets
        add("loop-2", 15, 8, [("S", 2), ("S", 10)])
    else:
        add("loop-2", 15, 8, [("S", 2), ("S", 10)])
        add("loop-2", 16, 1, [("S", 3), ("I", 11)])
        add("sparse-2", 15, 1, [("S", 2), ("S", 10)])
        add("sparse-2", 15, 8, [("S", 2), ("S", 10)], has_indel=False)
        add("sparse-2", 16, 1, [("I", 2), ("S", 10)])
        add("sparse-2", 16, 12, [("S", 3), ("D", 11)])
        for p in (2, 3):
            for hi in (True, False):
                add("mixed-2", 8, 0 if p == 2 else 10, [("S", p)], has_indel=hi)
        add("no-homopolymer-2", 7, 1, [("S", 2)], has_indel=False)
        add("mixed-2", 8, 0, [("D", 3)])
        add("mixed-2", 8, 10, [("I", 2)])
        for kind in "SID":
            for p in (1, 2, 3):
                add("ACG-1", 6, p % 3, [(kind, p)], nvt=0 if p % 2 else 2)
            add("complete-1", 5, 0, [(kind, 2)])
        add("complete-1", 5, 0, [("S", 1)], has_indel=False)
        for kind in "SID":
            for p in (2, 3, 4, 5):
                add("gc-balanced-2", 10, (1, 7, 4, 13)[p - 2], [(kind, p)], nvt=2 if p == 3 else 0)
            add("no-homopolymer-2", 8, 1, [(kind, 2)])
            add("mixed-2", 8, 0, [(kind, 3)])
        add("gc-balanced-2", 9, 4, [("S", 3)], has_indel=False)
        add("AC-1", 9, 0, [("S", 1), ("S", 6)])
        add("AC-1", 10, 1, [("D", 1), ("I", 6)])
        add("gc-balanced-2", 15, 1, [("S", 2), ("S", 10)])
        add("no-repeat-3", 10, 6, [("S", 3)])
    return J


def bounds(tier):
    js = jobs(tier)
    return {"graphs": sorted(set(j["graph"] for j in js)), "max_walk_length": max(j["n"] for j in js), "edits": "every kind, positions listed per job, every replacement nucleotide; "
            "two edits: sparse-2 in quick, more graphs in thorough", "outside": "longer walks, more than two edits, other graphs"}


def apply_edits(e, wcodes, edits):
    """corrupted code list; positions refer to the original walk."""
    out = list(wcodes)
    shift = 0
    for i, (kind, p) in enumerate(edits):
        q = p + shift
        c = z3.Int("repl_%d" % i)
        e.assume(z3.Or([c == ord(x) for x in "ACGT"]))
        if kind == "S":
            e.assume(c != out[q])
            out[q] = c
        elif kind == "I":
            out.insert(q, c)
            shift += 1
        else:
            del out[q]
            shift -= 1
    return out


def body(e, L, cfg):
    k, rows = repair.graph_by_name(cfg["graph"])
    n, start, edits = cfg["n"], cfg["start"], [tuple(x) for x in cfg["edits"]]
    w, wcodes, cons = oracles.sym_string(n, "w")
    e.assume(cons)
    g = oracles.GraphU(k, fixed=rows)
    e.assume(oracles.is_walk(g, z3.IntVal(start), wcodes))
    ccodes = apply_edits(e, wcodes, edits)
    c = strs.mk(ccodes)
    chk, chk_codes = None, None
    if cfg.get("nvt"):
        chk_codes = oracles.vt_terms(wcodes, cfg["nvt"])
        chk = strs.mk(chk_codes)
    symnp.WHERE_POLICY = "concrete"
    try:
        kind, val, reads = repair.run_repair(e, L, rows, c, start, k, vt_check=chk, has_indel=cfg["has_indel"], heap_size=1e9,
                                             budget=repair.budget_for(len(ccodes), k))
    finally:
        symnp.WHERE_POLICY = "symlen"

    def cex(m):
        cx = repair.repair_cex(m, cfg["graph"], ccodes, start, k, chk_codes, cfg["has_indel"], 1e9)
        cx["orig"] = oracles.model_string(m, wcodes)
        cx["edits"] = len(edits)
        return cx
    if kind != "ok":
        r, m = e.check()
        return {"status": "viol", "why": "repair_dna failed: %s %s" % (kind, val), "cex": cex(m)}
    cands, stats = val
    det = stats[0]
    if core.is_sym(det):
        det = core.concrete_int(det)
    det = int(det)
    conj = []
    if len(edits) == 1:
        corrupted_is_walk = oracles.is_walk(g, z3.IntVal(start), ccodes)
        conj.append(corrupted_is_walk == z3.BoolVal(det == 0))
    if det == len(edits):
        member = []
        for cand in cands:
            cc = strs.codes_of(cand)
            if len(cc) == n:
                member.append(z3.And([a == b for a, b in zip(cc, wcodes)]))
        conj.append(z3.Or(member) if member else z3.BoolVal(False))
    if conj:
        r, m = e.check(z3.Not(z3.And(conj)))
        if r == "sat":
            return {"status": "viol", "why": "original walk not recovered although detected == edits, or detection disagrees with the walk oracle", "cex": cex(m)}
        if r != "unsat":
            return {"status": "inconclusive", "why": "solver unknown"}
    mm = e._ensure_model()
    return {"status": "ok", "sample": {"graph": cfg["graph"], "walk": oracles.model_string(mm, wcodes), "corrupted": oracles.model_string(mm, ccodes),
                                       "edits": edits, "detected": det, "candidates": len(cands)}}


def replay(cex, repo_dir):
    return common.run_replay(cex["kind"], cex, repo_dir, timeout=60)


CANARIES = [
    {"name": "saturation-substitution-skips-a-nucleotide", "cfg": dict(graph="gc-balanced-2", n=7, start=4, edits=[("S", 2)], has_indel=True, nvt=0),
     "patches": {"graphized": [("    for r_nucleotide in list(filter(lambda n: n != original, [nucleotides[index] for index in used_indices])):",
                                "    for r_nucleotide in list(filter(lambda n: n != original and n != \"C\", [nucleotides[index] for index in used_indices])):")]}},
]

if __name__ == "__main__":
    sys.exit(common.main("checks.c08"))
