"""C05 -- the strand is the documented mixed-radix walk (encode vs an independent reference coder), and
decode of an arbitrary walk returns the value of its digit sequence."""
import sys

import z3

from checks import coding, common
from symx import core, strs, oracles, stubs, symnp
from symx.core import zint, SymInt

PID = "C05"
TITLE = "The strand is the documented mixed-radix walk, independent of implementation"
EXPLANATION = ("(enc) real dsw.encode on all arc subsets x starts x messages (x tables): the returned strand must equal, "
               "character by character and in length, an independent z3 reference coder (little-endian mixed radix, d-th "
               "live arc / table rank; fast mode 2 bits MSB-first at 4-way, 1 bit at 2-way vertices).  (dec) real dsw.decode "
               "on an arbitrary symbolic walk: output must be the digit value rendered big-endian when it fits")
STUBS = [stubs.STUB_NOTE, "Monitor.__call__ has an empty body"]
ASSUMPTIONS = ["(step) lifting the one-step equality to whole strands is induction over the loop iterations (written); the normal-mode loop state is exactly (quotient, vertex)",
               "(enc) paths where encode raises its dead-end / out-degree-3 ValueError or exceeds the step budget are outside the claim",
               "(dec) the input string is assumed to be a walk of the graph (independent z3 unfolding); fast mode: graphs without "
               "out-degree 3 and walks carrying at most L bits",
               "fast mode, odd number of bits left at a 4-way vertex: the missing bit reads as 0 (C04: 'bits carried total L or L+1')"]
def make_loader(cfg):
    if cfg.get("side") == "step":
        return coding.step_loader(coding.STEP_HOLDER)
    return coding.make_loader(cfg)


BUDGET_S = {"quick": 1500, "thorough": 1500}


def jobs(tier):
    J = []

    def add(**kw):
        J.append(kw)
    if tier == "quick":
        add(side="enc", k=1, L=3, fast=False, table=False, vt=0, max_steps=4)
        add(side="enc", k=1, L=3, fast=True, table=False, vt=0, max_steps=4)
        add(side="enc", k=1, L=2, fast=False, table=True, vt=0, max_steps=3)
        add(side="enc", k=1, L=3, fast=True, table=True, vt=0, max_steps=3)
        add(side="enc", k=1, L=1, fast=True, table=True, vt=0, max_steps=2)
        add(side="enc", k=2, L=2, fast=False, table=False, vt=0, max_steps=2)
        add(side="step", k=1, table=False)
        add(side="step", k=1, table=True)
        add(side="step", k=2, table=False)
        add(side="enc", k=1, L=2, fast=False, table=False, vt=0, max_steps=3, real_arith=True)
        add(side="dec", k=1, L=3, n=2, fast=False, table=False, real_arith=True)
        add(side="dec", k=1, L=4, n=2, fast=False, table=False)
        add(side="dec", k=1, L=4, n=2, fast=False, table=True)
        add(side="dec", k=1, L=4, n=2, fast=True, table=False)
        add(side="dec", k=1, L=4, n=2, fast=True, table=True)
        # walks with MORE information digits than requested bits (top digits zero, value still fits)
        add(side="dec", k=1, L=1, n=2, fast=False, table=False)
        add(side="dec", k=1, L=2, n=3, fast=False, table=False)
    else:
        add(side="dec", k=1, L=1, n=2, fast=False, table=False)
        add(side="dec", k=1, L=2, n=3, fast=False, table=True)
        add(side="dec", k=1, L=1, n=3, fast=False, table=False)
        add(side="dec", k=2, L=1, n=2, fast=False, table=False)
        for L in (1, 2, 3, 4, 5):
            add(side="enc", k=1, L=L, fast=False, table=False, vt=0, max_steps=L + 2)
            add(side="enc", k=1, L=L, fast=True, table=False, vt=0, max_steps=L + 2)
        for L in (2, 3):
            add(side="enc", k=1, L=L, fast=False, table=True, vt=0, max_steps=L + 1)
            add(side="enc", k=1, L=L, fast=True, table=True, vt=0, max_steps=L + 1)
        for L in (2, 3, 4):
            add(side="enc", k=2, L=L, fast=False, table=False, vt=0, max_steps=L)
            add(side="enc", k=2, L=L, fast=True, table=False, vt=0, max_steps=L)
        add(side="enc", k=2, L=2, fast=False, table=True, vt=0, max_steps=2)
        add(side="step", k=1, table=False)
        add(side="step", k=1, table=True)
        add(side="step", k=2, table=False)
        add(side="step", k=2, table=True)
        for n in (1, 2, 3):
            for fast in (False, True):
                for table in (False, True):
                    add(side="dec", k=1, L=2 * n, n=n, fast=fast, table=table)
        add(side="dec", k=1, L=3, n=3, fast=False, table=False)
        add(side="dec", k=2, L=4, n=2, fast=False, table=False)
        add(side="dec", k=2, L=4, n=2, fast=True, table=False)
    return J


def bounds(tier):
    js = jobs(tier)
    return {"orders_k": sorted(set(j["k"] for j in js)), "max_message_bits": max(j.get("L", 0) for j in js),
            "inductive step (normal mode)": "one loop iteration of the real encode from ANY state (message value V >= 1 unbounded, any vertex, any graph/table of order <= 2): "
                                            "emitted arc = reference arc for digit V mod r, V' = V div r, vertex' = successor -- lifts the reference equality to messages of every length",
            "max_walk_length_decode": max(j.get("n", 0) for j in js),
            "graphs": "all arc subsets per order (symbolic)", "tables": "all permutation tables where table=True",
            "outside": "k >= 3, longer messages / walks"}


def body(e, L, cfg):
    if cfg["side"] == "enc":
        return body_enc(e, L, cfg)
    if cfg["side"] == "step":
        return body_step(e, L, cfg)
    return body_dec(e, L, cfg)


def body_step(e, L, cfg):
    """inductive step of the reference equality (normal mode), message value unbounded."""
    k = cfg["k"]
    g = oracles.GraphU(k)
    start = z3.Int("start")
    tab = oracles.TableU(k) if cfg.get("table") else None
    e.assume(z3.And(start >= 0, start < g.N))
    if tab is not None:
        e.assume(tab.constraints())
    kind, info, V = coding.run_one_step(e, L, g, start, tab)
    deg = g.sel(start, lambda u: g.deg(u))

    def cex(m):
        v = m.eval(V, model_completion=True).as_long()
        bits = [int(b) for b in bin(v)[2:]]
        return {"kind": "coding", "acc": g.model_rows(m), "bits": bits, "start": m.eval(start, model_completion=True).as_long(), "fast": False, "vt": 0,
                "table": tab.model_rows(m) if tab is not None else None, "check": "reference"}
    if kind == "dead":
        r, m = e.check(deg >= 1)
        if r == "sat":
            return {"status": "viol", "why": "dead end reported at a vertex with arcs", "cex": cex(m)}
        return {"status": "ok", "sample": {"step": "dead end <=> out-degree 0"}}
    if kind == "nostate":
        return {"status": "skip", "why": "inductive step not applicable to this source: " + info}
    if kind == "exc":
        r, m = e.check()
        return {"status": "viol", "why": info, "cex": cex(m)}
    col, Vn, vn = info
    only = g.sel(start, lambda u: z3.If(g.arc[u][0], 0, z3.If(g.arc[u][1], 1, z3.If(g.arc[u][2], 2, 3))))
    digit = z3.If(deg == 2, V % 2, z3.If(deg == 3, V % 3, z3.If(deg == 4, V % 4, 0)))
    refcol = z3.If(deg == 1, only, oracles.rank_live(g, tab, start, digit))
    refV = z3.If(deg == 2, V / 2, z3.If(deg == 3, V / 3, z3.If(deg == 4, V / 4, V)))
    conj = [deg >= 1, col == refcol, Vn == refV]
    if vn is not None:
        conj.append(vn == (start * 4 + refcol) % (4 ** k))
    r, m = e.check(z3.Not(z3.And(conj)))
    if r == "sat":
        return {"status": "viol", "why": "one encode step differs from the reference step (digit = V mod r, V' = V div r)", "cex": cex(m)}
    if r != "unsat":
        return {"status": "inconclusive", "why": "solver unknown"}
    mm = e._ensure_model()
    return {"status": "ok", "sample": {"step": "one iteration from an arbitrary state", "V": str(mm.eval(V, model_completion=True)), "start": mm.eval(start, model_completion=True).as_long()}}


def body_enc(e, L, cfg):
    g, bs, start, tab = coding.universe(e, cfg)
    kind, val = coding.run_encode(e, L, cfg, g, bs, start, tab)
    if kind == "skip":
        return {"status": "skip", "why": val}
    if kind == "budget":
        return {"status": "budget"}
    if kind == "exc":
        v = coding.viol(e, "encode raised %s: %s" % (type(val).__name__, val), g, bs, start, tab, cfg, "reference",
                        extra=[oracles.wellformed(g, 1), g.sel(start, lambda u: g.live(u))])
        return v or {"status": "skip", "why": "exception on ill-formed graph only"}
    strand = val[0]
    codes = strs.codes_of(strand)
    n = len(codes)
    if cfg.get("fast"):
        steps, _ = oracles.ref_encode_fast(g, tab, start, bs, n + 1)
    else:
        steps, _ = oracles.ref_encode_normal(g, tab, start, oracles.bits_value(bs), n + 1)
    conj = []
    for i in range(n):
        active, col, deg, q, v = steps[i]
        conj.append(active)
        conj.append(col == oracles.nuc_index(codes[i]))
    conj.append(z3.Not(steps[n][0]))
    good = z3.And(conj)
    r, m = e.check(z3.Not(good))
    if r == "sat":
        return {"status": "viol", "why": "strand differs from the reference coder", "cex": coding.cex_of(m, g, bs, start, tab, cfg, "reference")}
    if r != "unsat":
        return {"status": "inconclusive", "why": "solver unknown on the final assertion"}
    return {"status": "ok", "sample": coding.sample_of(e, g, bs, start, tab, cfg, codes)}


def dec_universe(e, cfg, alphabet="ACGT"):
    k = cfg["k"]
    g = oracles.GraphU(k, fixed=cfg.get("graph"))
    start = z3.Int("start")
    tab = oracles.TableU(k) if cfg.get("table") else None
    e.assume(z3.And(start >= 0, start < g.N))
    if tab is not None:
        e.assume(tab.constraints())
    s, codes, cons = oracles.sym_string(cfg["n"], "c", alphabet)
    e.assume(cons)
    return g, start, tab, s, codes


def dec_cex(m, g, start, tab, codes, cfg, chk=None):
    return {"kind": "decode", "acc": g.model_rows(m), "start": m.eval(start, model_completion=True).as_long(),
            "strand": oracles.model_string(m, codes), "L": cfg["L"], "fast": bool(cfg.get("fast")),
            "table": tab.model_rows(m) if tab is not None else None, "vt_check": chk}


def digit_terms(g, tab, start, codes):
    oks, vs = oracles.walk_terms(g, start, codes)
    degs, digs = [], []
    for i, c in enumerate(codes):
        degs.append(g.sel(vs[i], lambda u: g.deg(u)))
        digs.append(oracles.digit_of_arc(g, tab, vs[i], oracles.nuc_index(c)))
    return oks, vs, degs, digs


def body_dec(e, L, cfg):
    g, start, tab, s, codes = dec_universe(e, cfg)
    oks, vs, degs, digs = digit_terms(g, tab, start, codes)
    e.assume(oks[-1] if oks else z3.BoolVal(True))
    Lb = cfg["L"]
    fast = bool(cfg.get("fast"))
    if fast:
        e.assume(z3.And([g.deg(v) != 3 for v in range(g.N)]))
        carried = z3.Sum([z3.If(d == 4, 2, z3.If(d == 2, 1, 0)) for d in degs]) if degs else z3.IntVal(0)
        e.assume(carried <= Lb)
    acc = g.accessor()
    sh = tab.array() if tab is not None else None
    try:
        out = L.decode(s, Lb, acc, SymInt(start), is_faster=fast, shuffles=sh)
    except core.Abort:
        raise
    except Exception as ex:
        r, m = e.check()
        if r != "sat":
            return {"status": "skip"}
        return {"status": "viol", "why": "decode raised %s on a walk: %s" % (type(ex).__name__, ex), "cex": dec_cex(m, g, start, tab, codes, cfg)}
    outs = out.fix_len().elems()
    if len(outs) != Lb:
        r, m = e.check()
        return {"status": "viol", "why": "decode returned %d bits" % len(outs), "cex": dec_cex(m, g, start, tab, codes, cfg)}
    if not fast:
        val = z3.IntVal(0)
        for i in range(len(codes) - 1, -1, -1):
            d, dg = degs[i], digs[i]
            val = z3.If(d == 2, val * 2 + dg, z3.If(d == 3, val * 3 + dg, z3.If(d == 4, val * 4 + dg, val)))
        fits = val < 2 ** Lb
        good = z3.Implies(fits, z3.And([zint(outs[i]) == (val / (2 ** (Lb - 1 - i))) % 2 for i in range(Lb)]) if Lb else z3.BoolVal(True))
    else:
        # expected bit at position p: walk the steps keeping a running offset
        off = z3.IntVal(0)
        exp = [z3.IntVal(0)] * Lb
        for i in range(len(codes)):
            d, dg = degs[i], digs[i]
            for p in range(Lb):
                exp[p] = z3.If(z3.And(d == 4, off == p), dg / 2, z3.If(z3.And(d == 4, off + 1 == p), dg % 2,
                                                                      z3.If(z3.And(d == 2, off == p), dg, exp[p])))
            off = off + z3.If(d == 4, 2, z3.If(d == 2, 1, 0))
        good = z3.And([zint(outs[p]) == exp[p] for p in range(Lb)]) if Lb else z3.BoolVal(True)
    r, m = e.check(z3.Not(good))
    if r == "sat":
        return {"status": "viol", "why": "decode output differs from the digit value of the walk", "cex": dec_cex(m, g, start, tab, codes, cfg)}
    if r != "unsat":
        return {"status": "inconclusive", "why": "solver unknown on the final assertion"}
    mm = e._ensure_model()
    return {"status": "ok", "sample": {"cfg": cfg, "strand": oracles.model_string(mm, codes), "graph": g.model_rows(mm) if g.N <= 16 else None,
                                       "start": mm.eval(start, model_completion=True).as_long()}}


def replay(cex, repo_dir):
    return common.run_replay(cex["kind"], cex, repo_dir)


CANARIES = [
    {"name": "arc-order-reversed-consistently", "cfg": dict(side="enc", k=1, L=2, fast=False, table=False, vt=0, max_steps=3),
     "patches": {"spiderweb": [("                value = used_indices[remainder]\n\n                if need_path:\n                    record_path.append([vertex_index, 1])",
                                "                value = used_indices[len(used_indices) - 1 - remainder]\n\n                if need_path:\n                    record_path.append([vertex_index, 1])")]}},
    {"name": "decode-bit-order", "cfg": dict(side="dec", k=1, L=2, n=1, fast=True, table=False),
     "patches": {"spiderweb": [("                binary_message[message_location] = remainder // 2\n", "                binary_message[message_location] = remainder % 2\n")]}},
]

if __name__ == "__main__":
    sys.exit(common.main("checks.c05"))
