"""C12 -- the local filter implements its documented window predicate."""
import sys
from fractions import Fraction

import z3

from checks import common
from symx import core, symnp, oracles, strs
from symx.core import SymInt, zint

PID = "C12"
TITLE = "The local filter implements its documented window predicate"
EXPLANATION = ("real LocalBioFilter(...).valid(s, only_last) on a symbolic string over {A,C,G,T,N,newline} of n characters, for a grid of "
               "configurations (window k, run limit, GC range incl. degenerate / asymmetric / lo>hi, motif sets incl. symbolic motifs): the "
               "verdict must equal an independent z3 predicate (characters, runs, motif and reverse complement, windowed G+C, short-string rule); "
               "only_last == whole-sequence verdict of the last window; spec-level lemmas (window conjunction for window-decidable "
               "configurations, reverse-complement invariance) are decided on the independent predicate")
STUBS = []
ASSUMPTIONS = ["'within the configured fraction' is read with the implementation's float products gc_range[i] * observed_length (computed by "
               "Python itself, compared exactly as rationals)", "motifs are non-empty strings over A,C,G,T"]
BUDGET_S = {"quick": 900, "thorough": 1500}
ALPHA = "ACGTN\n"


def make_loader(cfg):
    return {"_key": "real"}


GRID = [
    dict(k=4, runs=2, gc=[0.25, 0.75], motifs=["GC", "ACA"]),
    dict(k=3, runs=1, gc=None, motifs=None),
    dict(k=3, runs=3, gc=None, motifs=None),
    dict(k=2, runs=None, gc=[0.5, 0.5], motifs=None),
    dict(k=4, runs=None, gc=[0.4, 0.6], motifs=None),
    dict(k=5, runs=None, gc=[0.1, 0.3], motifs=None),
    dict(k=3, runs=None, gc=[0.0, 0.0], motifs=None),
    dict(k=3, runs=None, gc=[1.0, 1.0], motifs=None),
    dict(k=3, runs=None, gc=[0.7, 0.3], motifs=None),
    dict(k=3, runs=None, gc=None, motifs=["ACG"]),
    dict(k=3, runs=None, gc=None, motifs=["AT", "GGC"]),
    dict(k=2, runs=None, gc=None, motifs=["A"]),
    dict(k=6, runs=3, gc=[0.3, 0.7], motifs=["AAC", "GATC"]),
    dict(k=1, runs=1, gc=[0.0, 1.0], motifs=["T"]),
    dict(k=5, runs=None, gc=None, motifs=["GATC", "CC"]),          # longer motif listed FIRST (strings shorter than it must still be screened for the second)
    dict(k=4, runs=2, gc=None, motifs=["ACAT", "G", "TA"]),
]


def jobs(tier):
    J = []
    if tier == "quick":
        NS = (0, 1, 2, 3, 5, 7)
        grid = GRID
    else:
        NS = tuple(range(0, 13))
        grid = GRID + [dict(k=k, runs=r, gc=g, motifs=m) for k in (2, 4, 8) for r in (None, 1, 2) for g in (None, [0.25, 0.5], [0.5, 0.75]) for m in (None, ["CG"], ["TTA", "AC"])
                       if (r is None or r <= k) and (m is None or max(len(x) for x in m) <= k)]
    for c in grid:
        for n in NS:
            J.append(dict(side="valid", config=c, n=n))
    for n in ((3, 5) if tier == "quick" else (2, 3, 4, 6, 8)):
        J.append(dict(side="symmotif", k=3, n=n, mlen=2))
        J.append(dict(side="symmotif", k=3, n=n, mlen=3))
    for c in grid:
        if (c["runs"] is None or c["runs"] < c["k"]):
            for n in ((4, 7) if tier == "quick" else (3, 5, 8, 12)):
                if n >= c["k"]:
                    J.append(dict(side="lemma", config=c, n=n))
    return J


def bounds(tier):
    js = jobs(tier)
    return {"string_length": "n <= %d over %s" % (max(j["n"] for j in js), ALPHA), "configurations": len(set(str(j.get("config")) for j in js)),
            "symbolic motifs": "length 2 and 3, every motif over A,C,G,T", "outside": "longer strings, windows k > 8"}


# ---- independent predicate -------------------------------------------------------------------------------------------------------
def q(x):
    f = Fraction(x)
    return z3.RealVal(str(f.numerator) + "/" + str(f.denominator))


COMP = {65: 84, 67: 71, 71: 67, 84: 65}


def comp_term(c):
    return z3.If(c == 65, 84, z3.If(c == 67, 71, z3.If(c == 71, 67, z3.If(c == 84, 65, c))))


def spec(cfg, codes, motif_codes=None):
    """z3 Bool: documented whole-sequence verdict on the character codes."""
    k, runs, gc, motifs = cfg["k"], cfg.get("runs"), cfg.get("gc"), cfg.get("motifs")
    n = len(codes)
    cs = [z3.Or([c == ord(a) for a in "ACGT"]) for c in codes]
    if runs is not None:
        for i in range(n - runs):
            cs.append(z3.Not(z3.And([codes[i] == codes[i + j] for j in range(1, runs + 1)])))
    ms = []
    for mo in (motifs or []):
        ms.append([z3.IntVal(ord(ch)) for ch in mo])
    for mc in (motif_codes or []):
        ms.append(mc)
    for mo in ms:
        rc = [comp_term(c) for c in reversed(mo)]
        cs.append(z3.Not(strs.contains_term(codes, mo)))
        cs.append(z3.Not(strs.contains_term(codes, rc)))
    if gc is not None:
        lo, hi = gc[0] * k, gc[1] * k     # the implementation's own float products
        isgc = [z3.If(z3.Or(c == 67, c == 71), 1, 0) for c in codes]
        isat = [z3.If(z3.Or(c == 65, c == 84), 1, 0) for c in codes]
        if n >= k:
            for i in range(n - k + 1):
                g = z3.ToReal(z3.Sum(isgc[i:i + k])) if k else z3.RealVal(0)
                cs.append(z3.And(g <= q(hi), g >= q(lo)))
        else:
            g = z3.ToReal(z3.Sum(isgc)) if n else z3.RealVal(0)
            a = z3.ToReal(z3.Sum(isat)) if n else z3.RealVal(0)
            cs.append(z3.And(g <= q(hi), a <= q((1 - gc[0]) * k)))
    return z3.And(cs)


def body(e, L, cfg):
    n = cfg["n"]
    if cfg["side"] == "lemma":
        return lemma(e, cfg)
    s, codes, cons = oracles.sym_string(n, "c", ALPHA)
    e.assume(cons)
    motif_codes = None
    if cfg["side"] == "symmotif":
        c = dict(k=cfg["k"], runs=None, gc=None, motifs=None)
        mo, mcodes, mcons = oracles.sym_string(cfg["mlen"], "mo", "ACGT")
        e.assume(mcons)
        motif_codes = [mcodes]
        f = L.LocalBioFilter(observed_length=c["k"], undesired_motifs=[mo])
    else:
        c = cfg["config"]
        f = L.LocalBioFilter(observed_length=c["k"], max_homopolymer_runs=c["runs"], gc_range=c["gc"], undesired_motifs=c["motifs"])

    def cex(m):
        cc = dict(c)
        if motif_codes:
            cc["motifs"] = [oracles.model_string(m, mcodes)]
        return {"kind": "filter", "config": cc, "dna": oracles.model_string(m, codes)}
    k = c["k"]
    for only_last in (False, True):
        try:
            r = f.valid(s, only_last)
        except core.Abort:
            raise
        except Exception as ex:
            rr, m = e.check()
            if rr != "sat":
                return {"status": "skip"}
            return {"status": "viol", "why": "valid raised %s: %s" % (type(ex).__name__, ex), "cex": cex(m)}
        if core.is_sym(r):
            r = bool(r)
        obs = codes[-k:] if (only_last and k) else codes
        want = spec(c, obs, motif_codes)
        rr, m = e.check(want != z3.BoolVal(bool(r)))
        if rr == "sat":
            return {"status": "viol", "why": "valid(only_last=%s) returned %s against the documented predicate" % (only_last, bool(r)), "cex": cex(m)}
        if rr != "unsat":
            return {"status": "inconclusive", "why": "solver unknown"}
    mm = e._ensure_model()
    return {"status": "ok", "sample": {"config": c, "dna": oracles.model_string(mm, codes), "verdict_last_window": bool(r)}}


def lemma(e, cfg):
    """spec-level consequences, decided on the independent predicate: (1) for strings at least one window long and a
    window-decidable configuration the whole-sequence verdict is the conjunction of the window verdicts; (2) an A/C/G/T
    string and its reverse complement get the same verdict."""
    c, n = cfg["config"], cfg["n"]
    k = c["k"]
    s, codes, cons = oracles.sym_string(n, "c", "ACGT")
    e.assume(cons)
    whole = spec(c, codes)
    wins = z3.And([spec(c, codes[i:i + k]) for i in range(n - k + 1)])
    r, m = e.check(whole != wins)
    if r == "sat":
        return {"status": "viol", "why": "window conjunction differs from the whole-sequence verdict (spec level)",
                "cex": {"kind": "filter", "config": c, "dna": oracles.model_string(m, codes)}}
    if r != "unsat":
        return {"status": "inconclusive", "why": "solver unknown (window lemma)"}
    rc = [comp_term(x) for x in reversed(codes)]
    r, m = e.check(whole != spec(c, rc))
    if r == "sat":
        return {"status": "viol", "why": "reverse complement gets a different verdict (spec level)",
                "cex": {"kind": "filter", "config": c, "dna": oracles.model_string(m, codes)}}
    if r != "unsat":
        return {"status": "inconclusive", "why": "solver unknown (reverse-complement lemma)"}
    return {"status": "ok", "sample": {"lemma": "window conjunction + reverse complement", "config": c, "n": n}}


def replay(cex, repo_dir):
    return common.run_replay(cex["kind"], cex, repo_dir)


CANARIES = [
    {"name": "palindrome-shortcut", "cfg": dict(side="valid", config=dict(k=3, runs=None, gc=None, motifs=["ACA"]), n=3),
     "patches": {"biofilter": [("                reverse_complement = reverse_complement[::-1].upper()\n", "                reverse_complement = reverse_complement[::-1].upper()\n                if special == special[::-1]:\n                    continue\n")]}},
    {"name": "gc-upper-bound-non-strict", "cfg": dict(side="valid", config=dict(k=2, runs=None, gc=[0.5, 0.5], motifs=None), n=2),
     "patches": {"biofilter": [("                    if gc_count > self.gc_range[1] * self.observed_length:\n                        return False\n                    if gc_count < self.gc_range[0]", "                    if gc_count >= self.gc_range[1] * self.observed_length:\n                        return False\n                    if gc_count < self.gc_range[0]")]}},
]

if __name__ == "__main__":
    sys.exit(common.main("checks.c12"))
