"""Shared symbolic harness for the graph-walk coder (encode / decode): used by C01, C02(L3), C04, C05,
C18(b), C20.  One exploration = the real `encode` (and, if asked, the real `decode`) executed on
  * ALL arc subsets of the order-k de Bruijn graph (4^(k+1) Booleans) or a fixed concrete graph,
  * ALL start vertices, ALL messages of L bits, ALL permutation tables (optional)
as one symbolic input; per path the final assertion is decided by z3."""
import z3

from symx import core, symnp, strs, stubs, oracles
from symx.core import SymInt, SymBool, Budget, eng as _eng
from symx.oracles import GraphU, TableU

EXPECTED_ENCODE_ERRORS = ("Current vertex doesn't have an out-degree", "Not implementation")


def make_loader(cfg):
    if cfg.get("real_arith"):
        return {"_key": "real"}
    return {"stubs": {"operation": dict(stubs.OPERATION_STUBS)}, "_key": "decnum"}


def universe(e, cfg):
    k, Lb = cfg["k"], cfg["L"]
    g = GraphU(k, fixed=cfg.get("graph"))
    bs = oracles.bits(Lb)
    start = z3.Int("start")
    tab = TableU(k) if cfg.get("table") else None
    e.assume(oracles.bits_constraints(bs))
    e.assume(z3.And(start >= 0, start < g.N))
    if tab is not None:
        e.assume(tab.constraints())
    if cfg.get("wf") is not None:
        e.assume(oracles.wellformed(g, cfg["wf"]))
        e.assume(g.sel(start, lambda u: g.live(u)))
    if cfg.get("no_deg3"):
        e.assume(z3.And([g.deg(v) != 3 for v in range(g.N)]))
    if cfg.get("start_live"):
        e.assume(g.sel(start, lambda u: g.live(u)))
    return g, bs, start, tab


def cex_of(m, g, bs, start, tab, cfg, check):
    return {"kind": "coding", "acc": g.model_rows(m), "bits": [m.eval(b, model_completion=True).as_long() for b in bs],
            "start": m.eval(start, model_completion=True).as_long(), "fast": bool(cfg.get("fast")), "vt": cfg.get("vt", 0),
            "table": tab.model_rows(m) if tab is not None else None, "check": check}


def run_encode(e, L, cfg, g, bs, start, tab):
    """returns (kind, value): kind in 'ok' (value = (strand, check, acc, msg, sh)), 'skip', 'budget', 'exc'."""
    acc = g.accessor()
    steps = cfg.get("max_steps", cfg["L"] * g.N + 1)
    acc.budget = symnp.AccessBudget(2 * steps + 2)
    msg = symnp.Arr.new([SymInt(b) for b in bs], (len(bs),), symnp.INT)
    sh = tab.array() if tab is not None else None
    try:
        r = L.encode(msg, acc, SymInt(start), is_faster=bool(cfg.get("fast")), vt_length=cfg.get("vt", 0), shuffles=sh)
    except ValueError as ex:
        if any(str(ex).startswith(p) for p in EXPECTED_ENCODE_ERRORS):
            return "skip", str(ex)
        return "exc", ex
    except Budget:
        return "budget", None
    except Exception as ex:
        return "exc", ex
    finally:
        reads = acc.budget.count
        acc.budget = None
    if cfg.get("vt", 0) > 0:
        strand, chk = r
    else:
        strand, chk = r, None
    return "ok", (strand, chk, acc, msg, sh, reads)


def viol(e, why, g, bs, start, tab, cfg, check, extra=()):
    r, m = e.check(*extra)
    if r != "sat":
        return None
    return {"status": "viol", "why": why, "cex": cex_of(m, g, bs, start, tab, cfg, check)}


def sample_of(e, g, bs, start, tab, cfg, strand_codes=None):
    m = e._ensure_model()
    s = {"cfg": {k: v for k, v in cfg.items() if k != "graph"}, "start": m.eval(start, model_completion=True).as_long(),
         "bits": [m.eval(b, model_completion=True).as_long() for b in bs], "path_len": len(e.trace)}
    if g.N <= 16:
        s["graph"] = g.model_rows(m)
    if strand_codes is not None:
        s["strand"] = oracles.model_string(m, strand_codes)
    return s


# ------------------------------------------------------------------------------------------ one inductive step of normal-mode encode
def step_loader(V_holder):
    """loader kwargs: big-number contract stub whose bit_to_number returns an ARBITRARY positive value (the holder's z3 Int)."""
    ops = dict(stubs.OPERATION_STUBS)
    ops["bit_to_number"] = lambda bit_array, is_string=True, verbose=False: strs.DecNum(V_holder["V"])
    return {"stubs": {"operation": ops}, "_key": "decnum-step"}


STEP_HOLDER = {"V": None}


def frame_locals(ex, fname):
    tb = ex.__traceback__
    found = None
    while tb is not None:
        if tb.tb_frame.f_code.co_name == fname:
            found = tb.tb_frame.f_locals
        tb = tb.tb_next
    return found


def run_one_step(e, L, g, start, tab):
    """execute exactly one iteration of the normal-mode loop of the real encode from the state (quotient = V, vertex = start)
    with V an arbitrary integer >= 1.  Returns (kind, info): kind 'step' with info = (col_code, V_after, v_after) or 'dead'."""
    V = z3.Int("V")
    e.assume(V >= 1)
    STEP_HOLDER["V"] = V
    acc = g.accessor()
    acc.budget = symnp.AccessBudget(2)
    msg = symnp.Arr.new([1], (1,), symnp.INT)
    sh = tab.array() if tab is not None else None
    try:
        r = L.encode(msg, acc, SymInt(start), shuffles=sh)
        codes = strs.codes_of(r)
        if len(codes) != 1:
            return "exc", "encode returned %d nucleotides after one step" % len(codes), V
        col = oracles.nuc_index(codes[0])
        return "step", (col, z3.IntVal(0), None), V
    except ValueError as ex:
        return "dead", str(ex), V
    except Budget as ex:
        loc = frame_locals(ex, "encode") or {}
        # the loop state is read from the frame: by name when the names are the repository's, else by type (a refactoring may
        # rename locals or collect the strand in a list); if it cannot be located the step lemma is not applicable (skip)
        q = loc.get("quotient")
        if not isinstance(q, (strs.DecNum, str, strs.SStr)):
            cands = [v for v in loc.values() if isinstance(v, strs.DecNum)]
            q = cands[0] if len(cands) == 1 else None
        emitted = loc.get("dna_sequence")
        if strs.codes_of(emitted) is None if emitted is not None else True:
            emitted = None
            for v in loc.values():
                if isinstance(v, list) and len(v) == 1 and strs.codes_of(v[0]) is not None and len(strs.codes_of(v[0])) == 1:
                    emitted = v[0]
        if q is None or emitted is None:
            return "nostate", "loop state (quotient / emitted strand) not found among the locals of encode", V
        codes = strs.codes_of(emitted)
        if len(codes) != 1:
            return "exc", "%d nucleotides emitted in one iteration" % len(codes), V
        qv = q.v if isinstance(q, strs.DecNum) else stubs._val(q)
        vtx = loc.get("vertex_index")
        return "step", (oracles.nuc_index(codes[0]), qv, core.zint(vtx) if isinstance(vtx, (int, core.SymInt)) or type(vtx).__module__ == "numpy" else None), V
    finally:
        acc.budget = None
