"""C20 -- library calls are stateless and never modify their arguments."""
import sys

import z3

from checks import common, gen
from symx import core, symnp, oracles, strs, loader, scenarios
from symx.core import SymInt, SymBool, zint

PID = "C20"
TITLE = "Library calls are stateless and never modify their arguments"
EXPLANATION = ("(module-level state written by calls is reported in the samples but only counts when it changes a result) call histories on SHARED arguments (graph, message, table, mask, latter map, filter), partly symbolic (message bits, strand, mask "
               "window): every call of the history is compared with the same call made on fresh copies of the arguments by a freshly loaded copy "
               "of the modules ('a fresh process'), result terms must be provably equal (z3), every shared argument must be provably unchanged "
               "after the history, the loaded modules' global state must be unchanged, equal seeds give equal results for the two randomised "
               "calls, and verbose=True (REAL Monitor, formatted output) must give the same result and raise nothing")
STUBS = ["print formats its arguments but writes nothing; datetime is the real one"]
ASSUMPTIONS = ["histories are the fixed call sequences of symx/scenarios.py (all public functions, shared arguments, repeated and interleaved calls); the "
               "conclusion for arbitrary interleavings uses: no argument writes + no module state + determinism per call (written argument)",
               "remove_nasty_arc is exempt for its two documented in-place arguments (covered by C19)"]
BUDGET_S = {"quick": 1200, "thorough": 1500}
SLICE_PATHS = 20


def make_loader(cfg):
    return {"real_monitor": True, "quiet_print": True, "_key": "real-monitor"}


def jobs(tier):
    J = []
    q = tier == "quick"
    for g, start in (("MIXED1", 0), ("GC2", 1)) if q else (("MIXED1", 0), ("MIXED1", 3), ("GC2", 1), ("GC2", 7)):
        J.append(dict(scenario="coding", graph=g, start=start, L=2 if q else 3, n=2 if q else 3))
    for base, free in gen.windows(2, "quick")[:(2 if q else 3)]:
        J.append(dict(scenario="generation", k=2, base=base, free=free[:(4 if q else 7)]))
    J.append(dict(scenario="generation", k=1, base=[0] * 4, free=[0, 1, 2, 3]))
    for g in ("GC2", "MIXED1", "GC2D"):
        J.append(dict(scenario="graph", graph=g))
    J.append(dict(scenario="repair", graph="GC2", start=1, n=3 if q else 5))
    J.append(dict(scenario="repair", graph="MIXED1", start=0, n=2 if q else 4))
    J.append(dict(scenario="random", graph="GC2", seeds=[0, 7]))
    J.append(dict(scenario="random", graph="MIXED1", seeds=[0, 2021]))
    J.append(dict(scenario="variation", graph="GC2", start=1, n=3))
    J.append(dict(scenario="variation", graph="MIXED1", start=0, n=2))
    J.append(dict(scenario="verbose", graph="GC2", start=1))
    J.append(dict(scenario="verbose", graph="MIXED1", start=0))
    return J


def bounds(tier):
    js = jobs(tier)
    return {"scenarios": sorted(set(j["scenario"] for j in js)), "symbolic": "message bits (L <= 3), strand (n <= 5), mask windows (<= 7 free bits)",
            "calls_per_history": {k: len([s for s in f(_dummy_env()) if s[1]]) for k, f in scenarios.SCENARIOS.items()},
            "outside": "other call orders, larger inputs"}


def _dummy_env():
    return {"acc": None, "msg": None, "table": None, "start": 0, "L": 1, "strand": "", "bits_list": [], "mask": None, "k": 1, "filter": None, "lm": {}, "root": 0, "seeds": [0],
            "acc_b": None, "filter_b": None, "filter_w": None, "mask3": None, "mask1": None, "probe": ""}


GRAPHS = {"GC2": scenarios.GC2, "MIXED1": scenarios.MIXED1, "GC2D": scenarios.GC2D}
MOTIFS_A, MOTIFS_B = ["G", "AC"], ["T", "CA"]
MASK3 = [1 if (v * 7 + 3) % 5 else 0 for v in range(64)]


def graph_b(g):
    """same shape as g, one arc removed (the first arc of the LAST vertex with two or more arcs: a vertex reached inside walks)."""
    out = [list(r) for r in g]
    for v in reversed(range(len(out))):
        for j in range(4):
            if out[v][j] >= 0 and sum(1 for x in out[v] if x >= 0) >= 2:
                out[v][j] = -1
                return out
    return out


def build_env(e, L, cfg, fresh_names=False):
    """returns (env, spec_fn) where spec_fn(model) gives the concrete JSON description for the replay."""
    sc = cfg["scenario"]
    parts = {}
    g = GRAPHS.get(cfg.get("graph", "GC2"))
    N = len(g)
    k = 1 if N == 4 else 2
    bits = oracles.bits(cfg.get("L", 3), "m")
    scodes = [z3.Int("c_%d" % i) for i in range(cfg.get("n", 3))]

    def A(x, dtype=None):
        return symnp.array(x, dtype=dtype) if dtype else symnp.array(x)
    table = [[(v + j) % 4 for j in range(4)] for v in range(N)]
    lm = {v: [x for x in g[v] if x >= 0] for v in range(N) if any(x >= 0 for x in g[v])}
    if sc in ("coding", "repair", "variation"):
        e.assume(oracles.bits_constraints(bits))
        e.assume(z3.And([z3.Or([c == ord(a) for a in "ACGT"]) for c in scodes]) if scodes else z3.BoolVal(True))
    sym_bits = sc in ("coding", "variation")
    sym_strand = sc in ("coding", "repair", "variation")

    def make(L=L):
        env = {"acc": A(g), "table": A(table), "start": cfg.get("start", 0), "L": len(bits), "k": k, "lm": {a: list(b) for a, b in lm.items()},
               "root": [v for v in range(N) if any(x >= 0 for x in g[v])][0], "seeds": cfg.get("seeds", [0])}
        if sym_bits:
            env["msg"] = symnp.Arr.new([SymInt(b) for b in bits], (len(bits),), symnp.INT)
            env["bits_list"] = [SymInt(b) for b in bits]
        else:
            env["msg"] = A([1, 0, 1, 1, 0], int)
            env["bits_list"] = [1, 0, 1, 1, 0]
        env["strand"] = strs.mk(list(scodes)) if sym_strand else ("TCT" if N == 16 else "ACA")
        if sc == "generation":
            kk = cfg["k"]
            arr, bools = gen.mask_universe(e, dict(cfg, dtype="int"))
            env["mask"] = arr
            env["k"] = kk
            env["filter"] = L.LocalBioFilter(observed_length=kk, max_homopolymer_runs=1 if kk > 1 else None, gc_range=[0.0, 0.75])
            env["_bools"] = bools
        else:
            mk = [1 if any(x >= 0 for x in g[v]) else 0 for v in range(N)]
            env["mask"] = A(mk, int)
            env["filter"] = L.LocalBioFilter(observed_length=k, gc_range=[0.0, 1.0] if k == 1 else [0.5, 0.5], undesired_motifs=MOTIFS_A[:k])
        if sc == "variation":
            env["acc_b"] = A(graph_b(g))
            env["filter_b"] = L.LocalBioFilter(observed_length=k, gc_range=[0.0, 1.0] if k == 1 else [0.5, 0.5], undesired_motifs=MOTIFS_B[:k])
            env["filter_w"] = L.LocalBioFilter(observed_length=k + 2, max_homopolymer_runs=2, gc_range=[0.0, 1.0])   # window WIDER than the vertices it screens
            env["mask3"] = A(MASK3, int)
            env["mask1"] = A([1, 1, 0, 1], int)
            env["probe"] = "ACGTTG"[:k + 2]
        return env

    def spec(m):
        def arr(x, dt="int64"):
            return ["arr", {"data": x, "dtype": dt}]
        sp = {"acc": arr(g), "table": arr(table), "start": ["int", cfg.get("start", 0)], "L": ["int", len(bits)], "k": ["int", k],
              "lm": ["dict", [[a, b] for a, b in lm.items()]], "root": ["int", [v for v in range(N) if any(x >= 0 for x in g[v])][0]],
              "seeds": ["list", cfg.get("seeds", [0])]}
        if sym_bits:
            bl = [m.eval(b, model_completion=True).as_long() for b in bits]
        else:
            bl = [1, 0, 1, 1, 0]
        sp["msg"] = arr(bl)
        sp["bits_list"] = ["list", bl]
        sp["strand"] = ["str", oracles.model_string(m, scodes) if sym_strand else ("TCT" if N == 16 else "ACA")]
        if sc == "generation":
            kk = cfg["k"]
            free = set(cfg["free"])
            bools = [z3.Bool("m_%d" % v) if v in free else z3.BoolVal(bool(cfg["base"][v])) for v in range(4 ** kk)]
            sp["mask"] = arr([1 if z3.is_true(m.eval(b, model_completion=True)) else 0 for b in bools])
            sp["k"] = ["int", kk]
            sp["filter"] = ["filter", dict(observed_length=kk, max_homopolymer_runs=1 if kk > 1 else None, gc_range=[0.0, 0.75])]
        else:
            sp["mask"] = arr([1 if any(x >= 0 for x in g[v]) else 0 for v in range(N)])
            sp["filter"] = ["filter", dict(observed_length=k, gc_range=[0.0, 1.0] if k == 1 else [0.5, 0.5], undesired_motifs=MOTIFS_A[:k])]
        if sc == "variation":
            sp["acc_b"] = arr(graph_b(g))
            sp["filter_b"] = ["filter", dict(observed_length=k, gc_range=[0.0, 1.0] if k == 1 else [0.5, 0.5], undesired_motifs=MOTIFS_B[:k])]
            sp["filter_w"] = ["filter", dict(observed_length=k + 2, max_homopolymer_runs=2, gc_range=[0.0, 1.0])]
            sp["mask3"] = arr(MASK3)
            sp["mask1"] = arr([1, 1, 0, 1])
            sp["probe"] = ["str", "ACGTTG"[:k + 2]]
        return sp
    return make, spec


def snapshot(x):
    if isinstance(x, symnp.Arr):
        return x.copy()
    if isinstance(x, list):
        return [snapshot(y) for y in x]
    if isinstance(x, dict):
        return {a: snapshot(b) for a, b in x.items()}
    if hasattr(x, "__dict__") and not callable(x) and not isinstance(x, (str, strs.SStr)):
        return {"__obj__": {a: snapshot(b) for a, b in vars(x).items()}}
    return x


def eq_term(a, b):
    """z3 Bool: a and b denote the same value (structure compared concretely, contents symbolically)."""
    if isinstance(a, symnp.Arr) or isinstance(b, symnp.Arr):
        if not (isinstance(a, symnp.Arr) and isinstance(b, symnp.Arr)):
            return z3.BoolVal(False)
        a, b = a.fix_len(), b.fix_len()
        if a.shape != b.shape or a.dtype != b.dtype:
            return z3.BoolVal(False)
        return z3.And([eq_term(x, y) for x, y in zip(a.elems(), b.elems())]) if a.elems() else z3.BoolVal(True)
    if isinstance(a, dict) and "__obj__" in a:
        return eq_term(a["__obj__"], b["__obj__"]) if isinstance(b, dict) and "__obj__" in b else z3.BoolVal(False)
    if a is None or b is None:
        return z3.BoolVal(a is None and b is None)
    ca, cb = strs.codes_of(a) if isinstance(a, (str, strs.SStr)) else None, strs.codes_of(b) if isinstance(b, (str, strs.SStr)) else None
    if ca is not None or cb is not None:
        if ca is None or cb is None or len(ca) != len(cb):
            return z3.BoolVal(False)
        return z3.And([x == y for x, y in zip(ca, cb)]) if ca else z3.BoolVal(True)
    if isinstance(a, (list, tuple)) and isinstance(b, (list, tuple)):
        if len(a) != len(b) or (isinstance(a, tuple) != isinstance(b, tuple)):
            return z3.BoolVal(False)
        return z3.And([eq_term(x, y) for x, y in zip(a, b)]) if a else z3.BoolVal(True)
    if isinstance(a, dict) and isinstance(b, dict):
        ka = sorted(core.concrete_int(x) if core.is_sym(x) else x for x in a)
        kb = sorted(core.concrete_int(x) if core.is_sym(x) else x for x in b)
        if ka != kb:
            return z3.BoolVal(False)
        da = {(core.concrete_int(x) if core.is_sym(x) else x): v for x, v in a.items()}
        db = {(core.concrete_int(x) if core.is_sym(x) else x): v for x, v in b.items()}
        return z3.And([eq_term(da[x], db[x]) for x in ka]) if ka else z3.BoolVal(True)
    if isinstance(a, core.SymReal) or isinstance(b, core.SymReal) or isinstance(a, float) or isinstance(b, float):
        try:
            return core.zreal(a) == core.zreal(b)
        except (TypeError, core.Inconclusive):
            return z3.BoolVal(a == b)
    if core.is_sym(a) or core.is_sym(b):
        if isinstance(a, SymBool) or isinstance(b, SymBool):
            return core.zbool(a) == core.zbool(b)
        return zint(a) == zint(b)
    try:
        if type(a).__module__ == "numpy" or type(b).__module__ == "numpy":
            return z3.BoolVal(bool(a == b))
    except Exception:
        pass
    return z3.BoolVal(a == b)


def module_state(L):
    out = {}
    for mod, ns in L.ns.items():
        for name, obj in ns.items():
            if name in ("__builtins__", "_symx_K"):
                continue
            if callable(obj) or type(obj).__name__ == "module":
                d = getattr(obj, "__wrapped__", obj)
                out[(mod, name)] = ("callable", tuple(sorted(getattr(d, "__dict__", {}).keys())) if not isinstance(d, type) else ())
            else:
                out[(mod, name)] = ("value", repr(obj)[:200])
    return out


def run_history(e, L, cfg, env, isolate, make=None, Lfactory=None, make_for=None, snaps=None):
    out = {}
    last = None
    kept = None
    steps = scenarios.SCENARIOS[cfg["scenario"]](env)
    for label, fn, a, kw in steps:
        if fn is None:
            if label == "TRIM-LAST-RESULT":
                if not isolate and isinstance(last, symnp.Arr):
                    for i in range(last.shape[0]):
                        last[i] = -1
            elif label == "DRAW":
                if not isolate:
                    L.numpy.random.random(5)
            elif label == "RECONF-FILTER-A":
                env["filter"].undesired_motifs = list(env["filter_b"].undesired_motifs)      # the caller re-configures its filter object
                if snaps is not None:
                    snaps["filter"] = snapshot(env["filter"])
            elif label == "KEEP-LAST":
                kept = (last, snapshot(last))
            elif label == "CHECK-KEPT":
                if not isolate and kept is not None:
                    out["CHECK-KEPT"] = ("ok", (snapshot(kept[0]), kept[1]))
            elif label == "EDIT-ACC-A":
                a_ = env["acc"]          # a caller thinning the shared graph in place (as remove_nasty_arc does)
                if snaps is not None:
                    out["ARG-acc-before-edit"] = ("ok", (snapshot(a_), snaps["acc"]))
                for v_ in range(a_.shape[0]):
                    row_ = [x for x in a_._row(v_).elems()]
                    if sum(1 for x in row_ if (not core.is_sym(x)) and x >= 0) >= 2:
                        j_ = [j for j, x in enumerate(row_) if x >= 0][-1]
                        a_[v_, j_] = -1
                        break
                if snaps is not None:
                    snaps["acc"] = snapshot(a_)
            elif label.startswith("SEED-"):
                L.numpy.random.seed(int(label[5:]))
            continue
        LL = L
        if isolate:
            LL = Lfactory()
            env2 = make_for(LL)
            if label.endswith("-reconf"):
                env2["filter"].undesired_motifs = list(env2["filter_b"].undesired_motifs)
            if label.endswith("-edited"):
                a_ = env2["acc"]
                for v_ in range(a_.shape[0]):
                    row_ = [x for x in a_._row(v_).elems()]
                    if sum(1 for x in row_ if (not core.is_sym(x)) and x >= 0) >= 2:
                        j_ = [j for j, x in enumerate(row_) if x >= 0][-1]
                        a_[v_, j_] = -1
                        break
            a, kw = [(x[2], x[3]) for x in scenarios.SCENARIOS[cfg["scenario"]](env2) if x[0] == label][0]
        try:
            if "." in fn:
                cls, meth = fn.split(".")
                r = getattr(getattr(LL, cls), meth)(*a, **kw)
            else:
                r = getattr(LL, fn)(*a, **kw)
            out[label] = ("ok", snapshot(r))
            last = r
        except core.Abort:
            raise
        except (core.Inconclusive, core.Budget):
            raise
        except Exception as ex:
            out[label] = ("exc", type(ex).__name__)
        if out[label][0] != "ok":
            last = None
    return out


def body(e, L, cfg):
    symnp.WHERE_POLICY = "concrete"
    try:
        make, spec = build_env(e, L, cfg)
        env = make()
        snaps = {n: snapshot(v) for n, v in env.items() if not n.startswith("_")}
        before = module_state(L)
        hist = run_history(e, L, cfg, env, False, snaps=snaps)

        def cex(m):
            return {"kind": "history", "scenario": cfg["scenario"], "env": spec(m)}
        # 1. shared arguments unchanged
        for n, v in env.items():
            if n.startswith("_"):
                continue
            t = eq_term(snapshot(v), snaps[n])
            r, m = e.check(z3.Not(t))
            if r == "sat":
                return {"status": "viol", "why": "shared argument %r was modified by the history" % n, "cex": cex(m)}
            if r != "unsat":
                return {"status": "inconclusive", "why": "solver unknown"}
        # 2. module state unchanged
        # module-level state written by the calls is recorded (evidence) but is not by itself a violation: a cache that never
        # changes a result is allowed; what counts is the comparison with isolated calls below
        after = module_state(L)
        state_note = sorted(str(k_) for k_ in set(before) | set(after) if before.get(k_) != after.get(k_))[:4]
        # 3. every call equals the same call in isolation (fresh modules, fresh arguments)
        kw = make_loader(cfg)
        kw.pop("_key", None)
        iso = run_history(e, L, cfg, make(), True, make=make, Lfactory=lambda: loader.load(**kw), make_for=lambda LL: make(LL))
        for label in hist:
            if label not in iso:
                continue
            h, i = hist[label], iso[label]
            if h[0] != i[0]:
                r, m = e.check()
                return {"status": "viol", "why": "call %s: %s in the history, %s in isolation" % (label, h, i), "cex": cex(m)}
            t = eq_term(h[1], i[1]) if h[0] == "ok" else z3.BoolVal(h[1] == i[1])
            r, m = e.check(z3.Not(t))
            if r == "sat":
                return {"status": "viol", "why": "call %s returns something else in the history than in isolation" % label, "cex": cex(m)}
            if r != "unsat":
                return {"status": "inconclusive", "why": "solver unknown"}
        if "ARG-acc-before-edit" in hist:
            now, then = hist.pop("ARG-acc-before-edit")[1]
            r, m = e.check(z3.Not(eq_term(now, then)))
            if r == "sat":
                return {"status": "viol", "why": "shared argument 'acc' was modified by the history", "cex": cex(m)}
        if "CHECK-KEPT" in hist:
            now, then = hist["CHECK-KEPT"][1]
            r, m = e.check(z3.Not(eq_term(now, then)))
            if r == "sat":
                return {"status": "viol", "why": "a result handed out by an earlier call was rewritten by a later call", "cex": cex(m)}
        if cfg["scenario"] == "verbose":
            for label in hist:
                if label.startswith("verbose-"):
                    q = "quiet-" + label[8:]
                    if hist[label][0] == "exc" and hist[q][0] != "exc":
                        r, m = e.check()
                        return {"status": "viol", "why": "verbose=True raises %s" % hist[label][1], "cex": cex(m)}
                    t = eq_term(hist[label][1], hist[q][1]) if hist[label][0] == "ok" else z3.BoolVal(True)
                    r, m = e.check(z3.Not(t))
                    if r == "sat":
                        return {"status": "viol", "why": "verbose=True changes the result of %s" % label, "cex": cex(m)}
    finally:
        symnp.WHERE_POLICY = "symlen"
    return {"status": "ok", "sample": {"scenario": cfg["scenario"], "calls": len(hist), "raised": sorted(l for l, v in hist.items() if v[0] == "exc"),
                                       "module_state_written": state_note}}


def replay(cex, repo_dir):
    return common.run_replay(cex["kind"], cex, repo_dir, timeout=120)


CANARIES = [
    {"name": "complete-accessor-memoised", "cfg": dict(scenario="graph", graph="MIXED1"),
     "patches": {"graphized": [("    accessor, monitor = -ones(shape=(int(4 ** observed_length), 4), dtype=int), Monitor()\n\n    for vertex_index in range(int(4 ** observed_length)):\n        latters = obtain_latters(current=vertex_index, observed_length=observed_length)\n        for position, latter_vertex_index in enumerate(latters):\n            accessor[vertex_index][position] = latter_vertex_index\n\n        if verbose:\n            monitor(vertex_index + 1, int(4 ** observed_length))\n\n    return accessor",
                                "    if observed_length in _CACHE:\n        return _CACHE[observed_length]\n    accessor, monitor = -ones(shape=(int(4 ** observed_length), 4), dtype=int), Monitor()\n\n    for vertex_index in range(int(4 ** observed_length)):\n        latters = obtain_latters(current=vertex_index, observed_length=observed_length)\n        for position, latter_vertex_index in enumerate(latters):\n            accessor[vertex_index][position] = latter_vertex_index\n\n        if verbose:\n            monitor(vertex_index + 1, int(4 ** observed_length))\n\n    _CACHE[observed_length] = accessor\n    return accessor"),
                               ("from dsw.operation import Monitor\n", "from dsw.operation import Monitor\n\n_CACHE = {}\n")]}},
    {"name": "mask-trimmed-in-place", "cfg": dict(scenario="generation", k=2, base=[1, 1, 0, 0, 1, 0, 1, 0, 0, 0, 0, 1, 0, 0, 0, 0], free=[0, 1]),
     "patches": {"spiderweb": [("        vertices = new_vertices\n        times += 1", "        vertices[saved_indices] = new_vertices[saved_indices]\n        times += 1")]}},
]

if __name__ == "__main__":
    sys.exit(common.main("checks.c20"))
