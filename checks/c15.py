"""C15 -- string big-number arithmetic equals integer arithmetic."""
import sys

import z3

from checks import common
from symx import core, symnp, oracles, strs
from symx.core import SymInt, zint

PID = "C15"
TITLE = "String big-number arithmetic equals integer arithmetic"
EXPLANATION = ("real calculus_addition / subtraction / multiplication / division on a symbolic canonical decimal string of D digits "
               "(every digit symbolic) and a single-digit operand: the returned string(s) must have the exact integer value AND be canonical "
               "(digits only, no leading zero).  Bounded in D; the per-digit loop invariant that lifts it to any length is a written argument")
STUBS = []
ASSUMPTIONS = ["input numbers are canonical (no leading zeros); subtraction only when the result is non-negative; division by 1..9"]
BUDGET_S = {"quick": 900, "thorough": 1500}


def make_loader(cfg):
    return {"_key": "real"}


def jobs(tier):
    J = []
    if tier == "quick":
        DA, DM = 8, 5
    else:
        DA, DM = 16, 8
    for D in range(1, DA + 1):
        J.append(dict(op="add", D=D, b=None))
        J.append(dict(op="sub", D=D, b=None))
    for D in range(1, DM + 1):
        for b in range(10):
            J.append(dict(op="mul", D=D, b=b))
        for b in range(1, 10):
            J.append(dict(op="div", D=D, b=b))
    # concrete probes far outside the symbolic bound (bug hunting only): interpreter limits such as the recursion depth (1000)
    # and the int <-> str conversion limit (4300 digits) are size thresholds no bounded exploration reaches
    for D in (1100, 4299, 4300, 4301, 4400):     # 4300 is the interpreter's int <-> str digit limit: probe both sides of it
        J.append(dict(op="long", D=D))
    return J


def bounds(tier):
    js = jobs(tier)
    return {op: "D <= %d digits" % max(j["D"] for j in js if j["op"] == op) for op in ("add", "sub", "mul", "div")} | \
        {"concrete probes (not deciding)": "1100-, 4299-, 4300-, 4301- and 4400-digit numbers, 5 patterns"} | \
        {"operand": "add/sub: symbolic digit 0..9; mul: each of 0..9; div: each of 1..9", "outside": "longer numbers (digit-serial code: see DESIGN for the induction)"}


def sym_decimal(e, D, name="n"):
    codes = [z3.Int("%s_%d" % (name, i)) for i in range(D)]
    for c in codes:
        e.assume(z3.And(c >= 48, c <= 57))
    if D > 1:
        e.assume(codes[0] != 48)
    val = z3.Sum([(codes[i] - 48) * 10 ** (D - 1 - i) for i in range(D)])
    return strs.mk(codes), codes, val


def str_value_and_canon(s):
    codes = strs.codes_of(s)
    if codes is None:
        return None, None
    n = len(codes)
    if n == 0:
        return z3.IntVal(0), z3.BoolVal(False)
    val = z3.Sum([(codes[i] - 48) * 10 ** (n - 1 - i) for i in range(n)])
    canon = z3.And([z3.And(c >= 48, c <= 57) for c in codes] + ([codes[0] != 48] if n > 1 else []))
    return val, canon


def body_long(e, L, cfg):
    import sys
    import inspect
    D = cfg["D"]
    default_digits = sys.get_int_max_str_digits() if hasattr(sys, "get_int_max_str_digits") else 0
    old_rec = sys.getrecursionlimit()
    numbers = ["9" * D, "1" + "0" * (D - 1), "1" + "9" * (D - 1), ("1234567890" * (D // 10 + 1))[:D], "5" * D]
    if hasattr(sys, "set_int_max_str_digits"):
        sys.set_int_max_str_digits(0)
    for number in numbers:
        A = int(number)
        for op, f, bases in (("add", L.calculus_addition, "19"), ("sub", L.calculus_subtraction, "19"), ("mul", L.calculus_multiplication, "029"), ("div", L.calculus_division, "279")):
            for b in bases:
                B = int(b)
                exp = {"add": lambda: str(A + B), "sub": lambda: str(A - B), "mul": lambda: str(A * B), "div": lambda: (str(A // B), str(A % B))}[op]()
                try:
                    # the code under test runs under the interpreter's DEFAULT limits (int <-> str digits, recursion depth; every
                    # repository frame costs two frames here because of the entry-logging wrapper)
                    if hasattr(sys, "set_int_max_str_digits"):
                        sys.set_int_max_str_digits(4300 if default_digits == 0 else default_digits)
                    sys.setrecursionlimit(2 * 1000 + len(inspect.stack(0)))
                    r = f(strs.K(number), strs.K(b))
                    got = (str(r[0]), str(r[1])) if op == "div" else str(r)
                except core.Abort:
                    raise
                except BaseException as ex:
                    if isinstance(ex, (core.Inconclusive, core.Budget, KeyboardInterrupt)):
                        raise
                    got = "raised " + type(ex).__name__
                finally:
                    sys.setrecursionlimit(old_rec)
                    if hasattr(sys, "set_int_max_str_digits"):
                        sys.set_int_max_str_digits(0)
                if got != exp:
                    return {"status": "viol", "why": "%s on a %d-digit number: %s" % (op, D, got if isinstance(got, str) and got.startswith("raised") else "wrong result"),
                            "cex": {"kind": "arith", "op": op, "number": number, "base": b}}
    return {"status": "ok", "sample": {"long": "%d-digit concrete probes (5 patterns x 4 operations x 2-3 operands)" % D}}


def body(e, L, cfg):
    if cfg["op"] == "long":
        return body_long(e, L, cfg)
    op, D = cfg["op"], cfg["D"]
    num, ncodes, nval = sym_decimal(e, D)
    if cfg["b"] is None:
        bc = z3.Int("b")
        e.assume(z3.And(bc >= 48, bc <= 57))
        base, bval = strs.mk([bc]), bc - 48
    else:
        bc = None
        base, bval = strs.K(str(cfg["b"])), z3.IntVal(cfg["b"])
    if op == "sub":
        e.assume(nval >= bval)
    f = {"add": L.calculus_addition, "sub": L.calculus_subtraction, "mul": L.calculus_multiplication, "div": L.calculus_division}[op]

    def cex(m):
        return {"kind": "arith", "op": op, "number": oracles.model_string(m, ncodes),
                "base": str(cfg["b"]) if bc is None else chr(m.eval(bc, model_completion=True).as_long())}
    try:
        r = f(num, base)
    except core.Abort:
        raise
    except Exception as ex:
        rr, m = e.check()
        if rr != "sat":
            return {"status": "skip"}
        return {"status": "viol", "why": "%s raised %s: %s" % (op, type(ex).__name__, ex), "cex": cex(m)}
    if op == "div":
        if not isinstance(r, tuple) or len(r) != 2:
            rr, m = e.check()
            return {"status": "viol", "why": "division returned %r" % (r,), "cex": cex(m)}
        qv, qc = str_value_and_canon(r[0])
        rv, rc = str_value_and_canon(r[1])
        if qv is None or rv is None:
            rr, m = e.check()
            return {"status": "viol", "why": "division returned non-strings", "cex": cex(m)}
        b = cfg["b"]
        good = z3.And(qc, rc, qv == nval / b, rv == nval % b)
    else:
        v, c = str_value_and_canon(r)
        if v is None:
            rr, m = e.check()
            return {"status": "viol", "why": "%s returned a non-string" % op, "cex": cex(m)}
        exact = {"add": nval + bval, "sub": nval - bval, "mul": nval * bval}[op]
        good = z3.And(c, v == exact)
    rr, m = e.check(z3.Not(good))
    if rr == "sat":
        return {"status": "viol", "why": "%s result is not the canonical exact result" % op, "cex": cex(m)}
    if rr != "unsat":
        return {"status": "inconclusive", "why": "solver unknown"}
    mm = e._ensure_model()
    return {"status": "ok", "sample": {"op": op, "number": oracles.model_string(mm, ncodes), "base": cfg["b"] if bc is None else chr(mm.eval(bc, model_completion=True).as_long()),
                                       "path_len": len(e.trace)}}


def replay(cex, repo_dir):
    return common.run_replay(cex["kind"], cex, repo_dir)


CANARIES = [
    {"name": "borrow-crosses-one-zero-only", "cfg": dict(op="sub", D=4, b=None),
     "patches": {"operation": [("            while number[flag_a - 1] == 0:", "            if number[flag_a - 1] == 0:")]}},
    {"name": "division-remainder-carry", "cfg": dict(op="div", D=3, b=7),
     "patches": {"operation": [("        current = quotient + remainder * 10\n", "        current = quotient + (remainder % 5) * 10\n")]}},
]

if __name__ == "__main__":
    sys.exit(common.main("checks.c15"))
