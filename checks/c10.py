"""C10 -- repair always returns."""
import sys

from checks import common, repair

PID = "C10"
TITLE = "Repair always returns"
EXPLANATION = ("real repair_dna on EVERY A/C/G/T string of n nucleotides (symbolic), on concrete graphs of the kind the generator produces, from "
               "several start vertices, with indel handling on/off, heap limits 1 / 1e9, check absent / symbolic: the call must return a (list, "
               "4-tuple) pair without raising, within an access budget polynomial in n (the unwinding assertion: exceeding it is reported as "
               "non-termination)")
STUBS = ["Monitor unused"]
ASSUMPTIONS = ["graphs are concrete members of a small family of generated graphs (a symbolic graph makes the exploration hopeless: > 5000 paths at k=1, n=2); "
               "the strand is fully symbolic", "budget = 60 (n+1) k (2k+2) + 200 accessor row reads"]
BUDGET_S = {"quick": 1500, "thorough": 1500}


def make_loader(cfg):
    return {"_key": "real"}


def jobs(tier):
    J = []

    def add(**kw):
        J.append(kw)
    if tier == "quick":
        for n in (1, 2, 4):
            add(graph="complete-1", n=n, start=0, has_indel=True, heap_size=1e9, nvt=0)
        add(graph="ACG-1", n=4, start=1, has_indel=True, heap_size=1, nvt=0)
        add(graph="ACG-1", n=3, start=3, has_indel=False, heap_size=1e9, nvt=2)
        for start in (1, 11):
            add(graph="gc-balanced-2", n=5, start=start, has_indel=True, heap_size=1e9, nvt=0)
        add(graph="gc-balanced-2", n=2, start=4, has_indel=True, heap_size=1e9, nvt=0)
        add(graph="gc-balanced-2", n=4, start=7, has_indel=False, heap_size=1, nvt=2)
        add(graph="mixed-2", n=4, start=0, has_indel=True, heap_size=1e9, nvt=0)
        add(graph="mixed-2", n=4, start=5, has_indel=True, heap_size=1e9, nvt=0)
        add(graph="no-repeat-3", n=3, start=6, has_indel=True, heap_size=1e9, nvt=0)
        add(graph="no-repeat-3", n=4, start=27, has_indel=True, heap_size=1e9, nvt=0)
        for ne in (20, 63, 64):
            add(side="long", errors=ne, graph="gc-balanced-2", n=4 * ne + 8)
    else:
        for ne in (20, 62, 63, 64, 65, 127):
            add(side="long", errors=ne, graph="gc-balanced-2", n=4 * ne + 8)
        for n in range(1, 7):
            add(graph="complete-1", n=n, start=0, has_indel=True, heap_size=1e9, nvt=0)
        for n in range(1, 7):
            add(graph="ACG-1", n=n, start=(n % 4), has_indel=bool(n % 2), heap_size=1e9 if n % 3 else 1, nvt=0 if n % 2 else 2)
        for n in (2, 3, 4, 5, 6, 7):
            for start in (1, 11, 4):
                add(graph="gc-balanced-2", n=n, start=start, has_indel=True, heap_size=1e9, nvt=0)
        add(graph="gc-balanced-2", n=6, start=7, has_indel=False, heap_size=1, nvt=2)
        for n in (2, 4, 5):
            for start in (0, 5, 9):
                add(graph="mixed-2", n=n, start=start, has_indel=True, heap_size=1e9, nvt=0)
        add(graph="no-homopolymer-2", n=5, start=1, has_indel=True, heap_size=1e9, nvt=0)
        add(graph="no-repeat-3", n=5, start=6, has_indel=True, heap_size=1e9, nvt=0)
        add(graph="no-repeat-3", n=3, start=6, has_indel=True, heap_size=1e9, nvt=0)
    return J


def bounds(tier):
    js = jobs(tier)
    longs = [j for j in js if j.get("side") == "long"]
    js = [j for j in js if j.get("side") != "long"]
    return {"graphs": sorted(set(j["graph"] for j in js)), "max_strand_length": max(j["n"] for j in js), "strings": "all 4^n strings per job (symbolic)",
            "concrete probes (not deciding)": "strands of %s nt with an error every 4th position" % sorted(j["n"] for j in longs),
            "outside": "longer strands, other graphs, k >= 4"}


def long_strand(nerr):
    """walk TCTC... of the GC-balanced order-2 graph from vertex AC with a C->A substitution every 4th position."""
    s = list("TC" * (2 * nerr + 4))
    for i in range(nerr):
        s[4 * i + 5] = "A"
    return "".join(s)


def body_long(e, L, cfg):
    """concrete probe far outside the symbolic bound (bug hunting only): a long strand with many separated errors must still
    return at once through the heap-size cut-off (the candidate count is a product that grows as 2^errors)."""
    import signal
    from symx import symnp, strs
    k, rows = repair.graph_by_name("gc-balanced-2")
    s = long_strand(cfg["errors"])
    cex = {"kind": "repair", "graph": "gc-balanced-2", "strand": s, "start": 1, "k": 2, "vt_check": None, "has_indel": False, "heap_size": 1000.0,
           "time_limit": 20, "timeout_is_violation": True}

    def on_alarm(*a):
        raise core_Budget("wall-clock limit of the probe")
    from symx.core import Budget as core_Budget
    old = signal.signal(signal.SIGALRM, on_alarm)
    signal.setitimer(signal.ITIMER_REAL, 25)
    symnp.WHERE_POLICY = "concrete"
    try:
        r = L.repair_dna(strs.K(s), symnp.array(rows), 1, 2, has_indel=False)
    except core_Budget:
        return {"status": "viol", "why": "repair_dna did not return within 25 s on a %d-nt strand with %d separated errors" % (len(s), cfg["errors"]), "cex": cex}
    except Exception as ex:
        return {"status": "viol", "why": "repair_dna raised %s on the long probe" % type(ex).__name__, "cex": cex}
    finally:
        signal.setitimer(signal.ITIMER_REAL, 0)
        signal.signal(signal.SIGALRM, old)
        symnp.WHERE_POLICY = "symlen"
    if not (isinstance(r, tuple) and len(r) == 2 and isinstance(r[0], list)):
        return {"status": "viol", "why": "malformed result on the long probe", "cex": cex}
    return {"status": "ok", "sample": {"long probe": "%d nt, %d errors" % (len(s), cfg["errors"]), "candidates": len(r[0])}}


def body(e, L, cfg):
    if cfg.get("side") == "long":
        return body_long(e, L, cfg)
    return repair.body_any(e, L, cfg, check_sorted=False, check_vt=False)


def replay(cex, repo_dir):
    return common.run_replay(cex["kind"], cex, repo_dir, timeout=60)


CANARIES = [
    {"name": "scan-loop-does-not-advance", "cfg": dict(graph="gc-balanced-2", n=3, start=11, has_indel=True, heap_size=1e9, nvt=0),
     "patches": {"spiderweb": [("        else:\n            detected_count += 1\n", "        elif len(split_sequences[-1]) > 0:\n            detected_count += 1\n")]}},
]

if __name__ == "__main__":
    sys.exit(common.main("checks.c10"))
