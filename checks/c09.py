"""C09 -- repair leaves clean strands alone and only returns check-consistent candidates."""
import sys

import z3

from checks import common, repair
from symx import core, symnp, oracles, strs

PID = "C09"
TITLE = "Repair leaves clean strands alone and only returns check-consistent candidates"
EXPLANATION = ("(walk) real repair_dna on an arbitrary WALK of the graph (symbolic string constrained by an independent walk unfolding), with a "
               "symbolic, possibly wrong, check / no check, indel handling on/off, heap 1 / 1e9: the result is exactly [strand] (or [] when the "
               "check disagrees) with zero detected errors.  (any) on an arbitrary A/C/G/T string: whenever the call returns, the candidate list is "
               "strictly increasing (z3 lexicographic terms) and every candidate reproduces the supplied check (independent VT formula)")
STUBS = []
ASSUMPTIONS = ["graphs are concrete members of a small family of generated graphs; strands, checks are symbolic", "strands are at least one window long"]
BUDGET_S = {"quick": 1500, "thorough": 1500}


def make_loader(cfg):
    return {"_key": "real"}


def jobs(tier):
    J = []

    def add(**kw):
        J.append(kw)
    if tier == "quick":
        add(side="walk", graph="complete-1", n=3, start=2, has_indel=True, heap_size=1e9, nvt=2)
        add(side="walk", graph="ACG-1", n=4, start=0, has_indel=False, heap_size=1, nvt=0)
        add(side="walk", graph="gc-balanced-2", n=6, start=1, has_indel=True, heap_size=1e9, nvt=2)
        add(side="walk", graph="mixed-2", n=5, start=0, has_indel=True, heap_size=0, nvt=2)
        add(side="walk", graph="complete-2", n=3, start=5, has_indel=True, heap_size=1e9, nvt=0)
        add(side="any", graph="complete-1", n=3, start=0, has_indel=True, heap_size=1e9, nvt=2)
        add(side="any", graph="ACG-1", n=4, start=1, has_indel=True, heap_size=1, nvt=2)
        add(side="any", graph="gc-balanced-2", n=5, start=1, has_indel=True, heap_size=1e9, nvt=2)
        add(side="any", graph="gc-balanced-2", n=5, start=7, has_indel=True, heap_size=1, nvt=2)
        add(side="any", graph="mixed-2", n=4, start=0, has_indel=False, heap_size=1e9, nvt=0)
        add(side="any", graph="AC-1", n=5, start=0, has_indel=True, heap_size=1e9, nvt=1)
        add(side="any", graph="chain-1", n=5, start=0, has_indel=False, heap_size=1e9, nvt=1)
        add(side="any", graph="chain-1", n=4, start=1, has_indel=True, heap_size=1e9, nvt=2)
        add(side="any", graph="gc-balanced-2", n=5, start=1, has_indel=False, heap_size=1e9, nvt=2)
        add(side="any", graph="no-repeat-3", n=4, start=27, has_indel=False, heap_size=1e9, nvt=1)
        add(side="any", graph="no-repeat-3", n=4, start=6, has_indel=True, heap_size=1e9, nvt=2)
    else:
        for n in (1, 2, 3, 4, 5):
            add(side="walk", graph="complete-1", n=n, start=n % 4, has_indel=True, heap_size=1e9, nvt=2 if n % 2 else 0)
        for n in (2, 4, 6, 8):
            for start in (1, 7):
                add(side="walk", graph="gc-balanced-2", n=n, start=start, has_indel=bool(n % 4), heap_size=1e9 if start == 1 else 0, nvt=2)
        for g, st in (("mixed-2", 0), ("mixed-2", 5), ("no-homopolymer-2", 1), ("complete-2", 5), ("no-repeat-3", 6)):
            add(side="walk", graph=g, n=5, start=st, has_indel=True, heap_size=1e9, nvt=2)
        for n in (1, 2, 3, 4, 5):
            add(side="any", graph="complete-1", n=n, start=0, has_indel=True, heap_size=1e9, nvt=2)
        for n in (3, 5):
            add(side="any", graph="ACG-1", n=n, start=1, has_indel=True, heap_size=1, nvt=2)
        for n in (3, 5, 6):
            add(side="any", graph="chain-1", n=n, start=n % 3, has_indel=bool(n % 2), heap_size=1e9, nvt=1)
        for n in (4, 6, 7):
            for start, hs in ((1, 1e9), (7, 1)):
                add(side="any", graph="gc-balanced-2", n=n, start=start, has_indel=True, heap_size=hs, nvt=2)
        add(side="any", graph="mixed-2", n=5, start=0, has_indel=False, heap_size=1e9, nvt=0)
        add(side="any", graph="mixed-2", n=5, start=9, has_indel=True, heap_size=1e9, nvt=1)
        add(side="any", graph="no-repeat-3", n=5, start=6, has_indel=True, heap_size=1e9, nvt=2)
    return J


def bounds(tier):
    js = jobs(tier)
    return {"graphs": sorted(set(j["graph"] for j in js)), "max_strand_length": max(j["n"] for j in js), "check": "every check string of the given length (symbolic), or none",
            "outside": "longer strands, other graphs"}


def body(e, L, cfg):
    if cfg["side"] == "any":
        return repair.body_any(e, L, cfg, check_sorted=True, check_vt=True)
    k, rows = repair.graph_by_name(cfg["graph"])
    n, start = cfg["n"], cfg["start"]
    s, codes, cons = oracles.sym_string(n, "c")
    e.assume(cons)
    g = oracles.GraphU(k, fixed=rows)
    e.assume(oracles.is_walk(g, z3.IntVal(start), codes))
    chk, chk_codes = None, None
    if cfg.get("nvt"):
        chk, chk_codes, cc = oracles.sym_string(cfg["nvt"], "v")
        e.assume(cc)
    symnp.WHERE_POLICY = "concrete"
    try:
        kind, val, reads = repair.run_repair(e, L, rows, s, start, k, vt_check=chk, has_indel=cfg["has_indel"], heap_size=cfg["heap_size"],
                                             budget=repair.budget_for(n, k))
    finally:
        symnp.WHERE_POLICY = "symlen"

    def cex(m):
        return repair.repair_cex(m, cfg["graph"], codes, start, k, chk_codes, cfg["has_indel"], cfg["heap_size"])
    if kind != "ok":
        r, m = e.check()
        return {"status": "viol", "why": "repair_dna failed on a clean walk: %s %s" % (kind, val), "cex": cex(m)}
    cands, stats = val
    agree = z3.BoolVal(True)
    if chk is not None:
        ref = oracles.vt_terms(codes, cfg["nvt"])
        agree = z3.And([a == b for a, b in zip(ref, chk_codes)])
    if len(cands) == 1:
        cc = strs.codes_of(cands[0])
        same = z3.And([a == b for a, b in zip(cc, codes)]) if len(cc) == len(codes) else z3.BoolVal(False)
        good = z3.And(agree, same)
    elif len(cands) == 0:
        good = z3.Not(agree)
    else:
        good = z3.BoolVal(False)
    det = stats[0]
    good = z3.And(good, core.zint(det) == 0)
    r, m = e.check(z3.Not(good))
    if r == "sat":
        return {"status": "viol", "why": "clean walk not returned unchanged (or a wrong check not honoured)", "cex": cex(m)}
    if r != "unsat":
        return {"status": "inconclusive", "why": "solver unknown"}
    mm = e._ensure_model()
    return {"status": "ok", "sample": {"graph": cfg["graph"], "walk": oracles.model_string(mm, codes), "returned": len(cands)}}


def replay(cex, repo_dir):
    return common.run_replay(cex["kind"], cex, repo_dir, timeout=60)


CANARIES = [
    {"name": "fallback-path-ignores-check", "cfg": dict(side="walk", graph="complete-1", n=2, start=0, has_indel=True, heap_size=0, nvt=2),
     "patches": {"spiderweb": [("            if vt_check == set_vt(dna_sequence=dna_sequence, vt_length=len(vt_check)):\n                return [dna_sequence], (0, False, 0, visited_times)\n            else:\n                return [], (0, True, 0, visited_times)",
                                "            if True:\n                return [dna_sequence], (0, False, 0, visited_times)\n            else:\n                return [], (0, True, 0, visited_times)")]}},
    {"name": "product-path-ignores-check", "cfg": dict(side="any", graph="complete-1", n=3, start=0, has_indel=True, heap_size=1e9, nvt=2),
     "patches": {"spiderweb": [("            if vt_check == set_vt(dna_sequence=repaired_dna_sequence, vt_length=len(vt_check)):\n                repaired_results.add(repaired_dna_sequence)",
                                "            if vt_check == set_vt(dna_sequence=repaired_dna_sequence, vt_length=len(vt_check)) or len(repaired_results) == 0:\n                repaired_results.add(repaired_dna_sequence)")]}},
]

if __name__ == "__main__":
    sys.exit(common.main("checks.c09"))
