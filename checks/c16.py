"""C16 -- bit / number / DNA conversions are exact inverses."""
import sys

import z3

from checks import common, c15
from symx import core, symnp, oracles, strs
from symx.core import SymInt, zint

PID = "C16"
TITLE = "Bit, number and DNA conversions are exact inverses at any length"
EXPLANATION = ("real bit_to_number / number_to_bit / dna_to_number / number_to_dna (both the string-typed path, running the real string "
               "arithmetic, and the integer-typed path) on symbolic bit vectors of L bits, DNA strings of n nucleotides and numbers below "
               "2^L / 4^n given as symbolic ints and as symbolic decimal strings: values, round trips, agreement of the two paths, left padding")
STUBS = []
ASSUMPTIONS = ["bit arrays are given as Python lists of 0/1 (the documented type) and as shim arrays; numbers as canonical decimal strings",
               "numpy int64 overflow is outside the bounds (values < 2^16)"]
BUDGET_S = {"quick": 900, "thorough": 7200}


def make_loader(cfg):
    return {"_key": "real"}


def jobs(tier):
    J = []
    if tier == "quick":
        LB, NB, DS = (0, 1, 3, 5, 7), (0, 1, 2, 3), (1, 2)
    else:
        LB, NB, DS = tuple(range(0, 13)), tuple(range(0, 7)), (1, 2, 3, 4)
    for L in LB:
        J.append(dict(side="bits", L=L))
    for n in NB:
        J.append(dict(side="dna", n=n))
    for L in LB:
        if L:
            J.append(dict(side="int2bit", L=L))
    for n in NB:
        if n:
            J.append(dict(side="int2dna", n=n))
    for D in DS:
        J.append(dict(side="str2bit", D=D))
        J.append(dict(side="str2dna", D=D))
    return J


def bounds(tier):
    js = jobs(tier)
    return {"bits": "L <= %d" % max(j.get("L", 0) for j in js), "dna": "n <= %d" % max(j.get("n", 0) for j in js),
            "decimal strings": "<= %d digits" % max(j.get("D", 0) for j in js), "outside": "longer inputs (rest on C15's digit-serial helpers)"}


def body(e, L, cfg):
    side = cfg["side"]
    if side == "bits":
        n = cfg["L"]
        bs = oracles.bits(n)
        e.assume(oracles.bits_constraints(bs))
        val = oracles.bits_value(bs)
        lst = [SymInt(b) for b in bs]

        def cex(m):
            return {"kind": "conv", "fn": "bits", "bits": [m.eval(b, model_completion=True).as_long() for b in bs]}
        try:
            s = L.bit_to_number(lst, is_string=True)
            i = L.bit_to_number(list(lst), is_string=False)
            sv, sc = c15.str_value_and_canon(s)
            if sv is None:
                raise TypeError("bit_to_number(is_string=True) returned %r" % type(s).__name__)
            back_s = L.number_to_bit(s, n)
            back_i = L.number_to_bit(strs.PInt(i) if core.is_sym(i) else i, n)
        except core.Abort:
            raise
        except Exception as ex:
            rr, m = e.check()
            if rr != "sat":
                return {"status": "skip"}
            return {"status": "viol", "why": "raised %s: %s" % (type(ex).__name__, ex), "cex": cex(m)}
        if len(back_s) != n or len(back_i) != n:
            rr, m = e.check()
            return {"status": "viol", "why": "number_to_bit returned %d / %d bits" % (len(back_s), len(back_i)), "cex": cex(m)}
        good = z3.And([sc, sv == val, zint(i) == val] + [zint(x) == b for x, b in zip(back_s, bs)] + [zint(x) == b for x, b in zip(back_i, bs)])
        rr, m = e.check(z3.Not(good))
        if rr == "sat":
            return {"status": "viol", "why": "bit conversions are not exact inverses", "cex": cex(m)}
        if rr != "unsat":
            return {"status": "inconclusive", "why": "solver unknown"}
        mm = e._ensure_model()
        return {"status": "ok", "sample": {"bits": [mm.eval(b, model_completion=True).as_long() for b in bs]}}
    if side == "dna":
        n = cfg["n"]
        s, codes, cons = oracles.sym_string(n, "c")
        e.assume(cons)
        val = z3.IntVal(0)
        for c in codes:
            val = val * 4 + oracles.nuc_index(c)

        def cex(m):
            return {"kind": "conv", "fn": "dna", "dna": oracles.model_string(m, codes)}
        try:
            a = L.dna_to_number(s, is_string=True)
            b = L.dna_to_number(s, is_string=False)
            av, ac = c15.str_value_and_canon(a)
            if av is None:
                raise TypeError("dna_to_number(is_string=True) returned %r" % type(a).__name__)
            back_a = L.number_to_dna(a, n)
            back_b = L.number_to_dna(strs.PInt(b) if core.is_sym(b) else b, n)
        except core.Abort:
            raise
        except Exception as ex:
            rr, m = e.check()
            if rr != "sat":
                return {"status": "skip"}
            return {"status": "viol", "why": "raised %s: %s" % (type(ex).__name__, ex), "cex": cex(m)}
        ca, cb = strs.codes_of(back_a), strs.codes_of(back_b)
        if ca is None or cb is None or len(ca) != n or len(cb) != n:
            rr, m = e.check()
            return {"status": "viol", "why": "number_to_dna returned strings of the wrong length", "cex": cex(m)}
        good = z3.And([ac, av == val, zint(b) == val] + [x == y for x, y in zip(ca, codes)] + [x == y for x, y in zip(cb, codes)])
        rr, m = e.check(z3.Not(good))
        if rr == "sat":
            return {"status": "viol", "why": "DNA conversions are not exact inverses", "cex": cex(m)}
        if rr != "unsat":
            return {"status": "inconclusive", "why": "solver unknown"}
        mm = e._ensure_model()
        return {"status": "ok", "sample": {"dna": oracles.model_string(mm, codes)}}
    # numbers below the capacity of the width
    if side in ("int2bit", "int2dna"):
        width = cfg.get("L") or cfg.get("n")
        cap = 2 ** width if side == "int2bit" else 4 ** width
        v = z3.Int("v")
        e.assume(z3.And(v >= 0, v < cap))
        arg = SymInt(v)
        as_string = False
        vv = v
        mvars = [v]
    else:
        D = cfg["D"]
        arg, ncodes, vv = c15.sym_decimal(e, D)
        as_string = True
        width = None
    fn = "num2bit" if side.endswith("bit") else "num2dna"
    base = 2 if fn == "num2bit" else 4
    if as_string:
        # smallest width that holds every D-digit number
        width = 1
        while base ** width < 10 ** cfg["D"]:
            width += 1

    def cex(m):
        val = m.eval(vv, model_completion=True).as_long()
        return {"kind": "conv", "fn": fn, "value": val, "width": width, "as_string": as_string}
    try:
        if fn == "num2bit":
            r = L.number_to_bit(arg, width)
            digs = [zint(x) for x in r]
            back = L.bit_to_number(list(r), is_string=False)
        else:
            r = L.number_to_dna(arg, width)
            rc = strs.codes_of(r)
            digs = [oracles.nuc_index(c) for c in rc]
            back = L.dna_to_number(r, is_string=False)
    except core.Abort:
        raise
    except Exception as ex:
        rr, m = e.check()
        if rr != "sat":
            return {"status": "skip"}
        return {"status": "viol", "why": "raised %s: %s" % (type(ex).__name__, ex), "cex": cex(m)}
    if len(digs) != width:
        rr, m = e.check()
        return {"status": "viol", "why": "rendering has %d symbols, %d requested" % (len(digs), width), "cex": cex(m)}
    good = z3.And([digs[i] == (vv / (base ** (width - 1 - i))) % base for i in range(width)] + [zint(back) == vv])
    rr, m = e.check(z3.Not(good))
    if rr == "sat":
        return {"status": "viol", "why": "fixed-width rendering is not the padded base-%d expansion (or does not convert back)" % base, "cex": cex(m)}
    if rr != "unsat":
        return {"status": "inconclusive", "why": "solver unknown"}
    mm = e._ensure_model()
    return {"status": "ok", "sample": {"fn": fn, "value": mm.eval(vv, model_completion=True).as_long(), "width": width, "as_string": as_string}}


def replay(cex, repo_dir):
    return common.run_replay(cex["kind"], cex, repo_dir)


CANARIES = [
    {"name": "padding-on-the-wrong-side", "cfg": dict(side="int2dna", n=3),
     "patches": {"operation": [("    return nucleotides[0] * (dna_length - len(one_array)) + one_array", "    return one_array + nucleotides[0] * (dna_length - len(one_array))")]}},
]

if __name__ == "__main__":
    sys.exit(common.main("checks.c16"))
