"""C16 -- bit / number / DNA conversions are exact inverses."""
import sys

import z3

from checks import common, c15
from symx import core, symnp, oracles, strs
from symx.core import SymInt, zint

PID = "C16"
TITLE = "Bit, number and DNA conversions are exact inverses at any length"
EXPLANATION = ("real bit_to_number / number_to_bit / dna_to_number / number_to_dna (both the string-typed path, running the real string "
               "arithmetic, and the integer-typed path) on symbolic bit vectors of L bits, DNA strings of n nucleotides and numbers below "
               "2^L / 4^n given as symbolic ints and as symbolic decimal strings: values, round trips, agreement of the two paths, left padding")
STUBS = []
ASSUMPTIONS = ["bit arrays are given as Python lists of 0/1 (the documented type); numbers as canonical decimal strings",
               "machine numbers: numpy int64 results wrap around (modelled exactly with mod 2^64 when the interval analysis cannot exclude overflow) and "
               "an integer converted to binary64 by a true division is rounded half-even exactly (values < 2^64); the wide integer-typed jobs "
               "(56/64 bits, 28..33 nucleotides) exist to reach these regimes; their inputs are mostly concrete (first 3 and last 5 symbols symbolic, two fixed "
               "patterns for the rest, the free symbols enumerated exhaustively) because nested divisions over dozens of free variables are out of reach for "
               "linear integer arithmetic"]
BUDGET_S = {"quick": 900, "thorough": 1500}


def make_loader(cfg):
    return {"_key": "real"}


def jobs(tier):
    J = []
    if tier == "quick":
        LB, NB, DS = (0, 1, 3, 5, 7), (0, 1, 2, 3), (1, 2)
    else:
        LB, NB, DS = tuple(range(0, 13)), tuple(range(0, 7)), (1, 2, 3, 4)
    for L in LB:
        J.append(dict(side="bits", L=L))
    for n in NB:
        J.append(dict(side="dna", n=n))
    for L in LB:
        if L:
            J.append(dict(side="int2bit", L=L))
    for n in NB:
        if n:
            J.append(dict(side="int2dna", n=n))
    for D in DS:
        J.append(dict(side="str2bit", D=D))
        J.append(dict(side="str2dna", D=D))
    # two LONG bit arrays (1001 and 1203 bits, numpy arrays) that agree on their first and last bits, one after the other
    J.append(dict(side="long-history", L=1001))
    if tier != "quick":
        J.append(dict(side="long-history", L=1203))
    # string-typed number -> DNA on a number just beyond the interpreter's int <-> str digit limit (4300 digits): concrete probe,
    # bug hunting only -- the repeated division must stay digit-serial at every length ("at any length" in the property)
    J.append(dict(side="wide-string", D=4301))
    if tier != "quick":
        J.append(dict(side="wide-string", D=4400, to="bit"))
    # wide integer-typed paths: beyond 2^53 (binary64) and 2^63 (int64) -- machine-number pitfalls
    for L in ((56,) if tier == "quick" else (54, 56, 64)):
        for pat in ("max", "mix"):
            J.append(dict(side="bits", L=L, int_only=True, pattern=pat))
            J.append(dict(side="int2bit", L=L, pattern=pat))
    for n in ((33,) if tier == "quick" else (28, 32, 33)):
        for pat in ("max", "mix"):
            J.append(dict(side="dna", n=n, int_only=True, pattern=pat))
            J.append(dict(side="int2dna", n=n, pattern=pat))
    return J


def bounds(tier):
    js = jobs(tier)
    return {"bits": "L <= %d" % max(j.get("L", 0) for j in js), "dna": "n <= %d" % max(j.get("n", 0) for j in js),
            "decimal strings": "<= %d digits" % max(j.get("D", 0) for j in js if j["side"] != "wide-string"),
            "concrete probes (not deciding)": "1001/1203-bit arrays; one 4301-digit (thorough: also 4400-digit) decimal string rendered as DNA / bits", "outside": "longer inputs (rest on C15's digit-serial helpers)"}


def wide_positions(n):
    """wide inputs are mostly concrete: only the first 3 and the last 5 symbols are symbolic (nested divisions over dozens of
    free variables are out of reach for LIA); the concrete middle is a fixed pattern chosen by `pattern`."""
    return set(list(range(0, 3)) + list(range(n - 5, n)))


def wide_symbols(n, base, pattern, name):
    """symbols of a wide input: a window of free symbols (first 2 / 3 and last 2 / 5) enumerated exhaustively by the solver
    (each is concretised = forked), the rest is a fixed pattern; the path then runs on concrete machine numbers, i.e. with
    the exact int64 / binary64 semantics of Python and numpy."""
    sym = wide_positions(n) if base == 2 else set([0, 1, n - 2, n - 1])
    out = []
    for i in range(n):
        if i in sym:
            x = z3.Int("%s_%d" % (name, i))
            core.eng().assume(z3.And(x >= 0, x < base))
            out.append(z3.IntVal(core.eng().concretize(x)))
        else:
            out.append(z3.IntVal((base - 1) if pattern == "max" else (i * 7 + 1) % base))
    return out


def body_long_history(e, L, cfg):
    """concrete probe (bug hunting, not deciding): conversions of long inputs that differ only in the middle must not be confused
    (numpy abbreviates the text of arrays of more than 1000 elements) -- same process, one after the other, both number types"""
    n = cfg["L"]
    a1 = [(i * 7 + i // 3) % 2 for i in range(n)]
    a2 = list(a1)
    for i in range(n // 2 - 5, n // 2 + 5):
        a2[i] = 1 - a2[i]
    for is_string in (True,):      # numpy arrays go through the string path (this is how encode calls it); the integer path takes lists
        for bits in (a1, a2):
            val = 0
            for b in bits:
                val = val * 2 + b
            try:
                got = L.bit_to_number(symnp.array(bits), is_string=is_string)
            except core.Abort:
                raise
            except core.Inconclusive:
                raise
            except Exception as ex:
                return {"status": "viol", "why": "bit_to_number raised %s on a %d-bit array" % (type(ex).__name__, n), "cex": {"kind": "conv", "fn": "long-history", "L": n}}
            if core.is_sym(got):
                got = core.concrete_int(got)
            if _decimal_of(got) != _decimal_of(val):
                return {"status": "viol", "why": "second %d-bit array converted to the first array's number (is_string=%s)" % (n, is_string),
                        "cex": {"kind": "conv", "fn": "long-history", "L": n}}
    return {"status": "ok", "sample": {"long-history": "two %d-bit numpy arrays differing in the middle, string path" % n}}


def wide_string_number(D):
    return ("7301942685" * (D // 10 + 1))[:D]


def body_wide_string(e, L, cfg):
    """concrete probe (bug hunting, not deciding): number_to_dna / number_to_bit of a D-digit decimal string (D beyond the
    interpreter's 4300-digit int <-> str limit), called under the interpreter's DEFAULT limit, against the base-4 / base-2
    expansion computed with Python integers"""
    D, to = cfg["D"], cfg.get("to", "dna")
    base = 4 if to == "dna" else 2
    number = wide_string_number(D)
    old = sys.get_int_max_str_digits() if hasattr(sys, "get_int_max_str_digits") else None
    if old is not None:
        sys.set_int_max_str_digits(0)
    v = int(number)
    width = 1
    while base ** width <= v:
        width += 1
    width += 3           # three symbols of left padding
    digs, x = [], v
    for _ in range(width):
        digs.append(x % base)
        x //= base
    digs.reverse()
    cex = {"kind": "conv", "fn": "wide-string", "D": D, "to": to}
    try:
        if old is not None:
            sys.set_int_max_str_digits(4300 if old == 0 else old)
        r = (L.number_to_dna if to == "dna" else L.number_to_bit)(strs.K(number), width)
        got = [("ACGT".index(c) if c in "ACGT" else -1) for c in str(r)] if to == "dna" else [int(core.concrete_int(b) if core.is_sym(b) else b) for b in r]
    except core.Abort:
        raise
    except core.Inconclusive:
        raise
    except Exception as ex:
        return {"status": "viol", "why": "number_to_%s raised %s on a %d-digit decimal string" % (to, type(ex).__name__, D), "cex": cex}
    finally:
        if old is not None:
            sys.set_int_max_str_digits(old)
    if got != digs:
        return {"status": "viol", "why": "number_to_%s of a %d-digit decimal string is not its padded base-%d expansion" % (to, D, base), "cex": cex}
    return {"status": "ok", "sample": {"wide-string": "%d-digit decimal string -> %d %s" % (D, width, "nucleotides" if to == "dna" else "bits")}}


def _decimal_of(v):
    """decimal rendering without the interpreter's int <-> str limit getting in the way"""
    if isinstance(v, str):
        return str.__str__(v)
    import sys
    old = sys.get_int_max_str_digits() if hasattr(sys, "get_int_max_str_digits") else None
    try:
        if old is not None:
            sys.set_int_max_str_digits(0)
        return str(int(v))
    finally:
        if old is not None:
            sys.set_int_max_str_digits(old)


def body(e, L, cfg):
    side = cfg["side"]
    if side == "long-history":
        return body_long_history(e, L, cfg)
    if side == "wide-string":
        return body_wide_string(e, L, cfg)
    if side == "bits":
        n = cfg["L"]
        bs = oracles.bits(n) if not cfg.get("int_only") else wide_symbols(n, 2, cfg.get("pattern", "max"), "m")
        e.assume(z3.And([z3.And(b >= 0, b <= 1) for b in bs if not z3.is_int_value(b)]) if n else z3.BoolVal(True))
        val = oracles.bits_value(bs)
        lst = [(SymInt(b) if not z3.is_int_value(b) else b.as_long()) for b in bs]

        def cex(m):
            return {"kind": "conv", "fn": "bits", "bits": [m.eval(b, model_completion=True).as_long() for b in bs]}
        try:
            i = L.bit_to_number(list(lst), is_string=False)
            if cfg.get("int_only"):
                sv, sc, back_s = val, z3.BoolVal(True), list(lst)
            else:
                s = L.bit_to_number(lst, is_string=True)
                sv, sc = c15.str_value_and_canon(s)
                if sv is None:
                    raise TypeError("bit_to_number(is_string=True) returned %r" % type(s).__name__)
                back_s = L.number_to_bit(s, n)
            back_i = L.number_to_bit(strs.PInt(i) if core.is_sym(i) else i, n)
        except core.Abort:
            raise
        except Exception as ex:
            rr, m = e.check()
            if rr != "sat":
                return {"status": "skip"}
            return {"status": "viol", "why": "raised %s: %s" % (type(ex).__name__, ex), "cex": cex(m)}
        if len(back_s) != n or len(back_i) != n:
            rr, m = e.check()
            return {"status": "viol", "why": "number_to_bit returned %d / %d bits" % (len(back_s), len(back_i)), "cex": cex(m)}
        good = z3.And([sc, sv == val, zint(i) == val] + [zint(x) == b for x, b in zip(back_s, bs)] + [zint(x) == b for x, b in zip(back_i, bs)])
        rr, m = e.check(z3.Not(good))
        if rr == "sat":
            return {"status": "viol", "why": "bit conversions are not exact inverses", "cex": cex(m)}
        if rr != "unsat":
            return {"status": "inconclusive", "why": "solver unknown"}
        mm = e._ensure_model()
        return {"status": "ok", "sample": {"bits": [mm.eval(b, model_completion=True).as_long() for b in bs]}}
    if side == "dna":
        n = cfg["n"]
        if cfg.get("int_only"):
            idx = wide_symbols(n, 4, cfg.get("pattern", "max"), "c")
            e.assume(z3.And([z3.And(x >= 0, x <= 3) for x in idx if not z3.is_int_value(x)]))
            codes = [oracles.code_of_index(x) if not z3.is_int_value(x) else z3.IntVal(ord("ACGT"[x.as_long()])) for x in idx]
            s = strs.mk(codes)
        else:
            s, codes, cons = oracles.sym_string(n, "c")
            e.assume(cons)
        val = z3.IntVal(0)
        for c in codes:
            val = val * 4 + oracles.nuc_index(c)

        def cex(m):
            return {"kind": "conv", "fn": "dna", "dna": oracles.model_string(m, codes)}
        try:
            b = L.dna_to_number(s, is_string=False)
            if cfg.get("int_only"):
                av, ac, back_a = val, z3.BoolVal(True), s
            else:
                a = L.dna_to_number(s, is_string=True)
                av, ac = c15.str_value_and_canon(a)
                if av is None:
                    raise TypeError("dna_to_number(is_string=True) returned %r" % type(a).__name__)
                back_a = L.number_to_dna(a, n)
            back_b = L.number_to_dna(strs.PInt(b) if core.is_sym(b) else b, n)
        except core.Abort:
            raise
        except Exception as ex:
            rr, m = e.check()
            if rr != "sat":
                return {"status": "skip"}
            return {"status": "viol", "why": "raised %s: %s" % (type(ex).__name__, ex), "cex": cex(m)}
        ca, cb = strs.codes_of(back_a), strs.codes_of(back_b)
        if ca is None or cb is None or len(ca) != n or len(cb) != n:
            rr, m = e.check()
            return {"status": "viol", "why": "number_to_dna returned strings of the wrong length", "cex": cex(m)}
        good = z3.And([ac, av == val, zint(b) == val] + [x == y for x, y in zip(ca, codes)] + [x == y for x, y in zip(cb, codes)])
        rr, m = e.check(z3.Not(good))
        if rr == "sat":
            return {"status": "viol", "why": "DNA conversions are not exact inverses", "cex": cex(m)}
        if rr != "unsat":
            return {"status": "inconclusive", "why": "solver unknown"}
        mm = e._ensure_model()
        return {"status": "ok", "sample": {"dna": oracles.model_string(mm, codes)}}
    # numbers below the capacity of the width
    if side in ("int2bit", "int2dna"):
        width = cfg.get("L") or cfg.get("n")
        cap = 2 ** width if side == "int2bit" else 4 ** width
        v = z3.Int("v")
        e.assume(z3.And(v >= 0, v < cap))
        if width >= 24:
            b_ = 2 if side == "int2bit" else 4
            ds = wide_symbols(width, b_, cfg.get("pattern", "max"), "w")
            vconc = sum(ds[i].as_long() * b_ ** (width - 1 - i) for i in range(width))
            e.assume(v == vconc)
            arg = vconc
        else:
            arg = SymInt(v)
        as_string = False
        vv = v
        mvars = [v]
    else:
        D = cfg["D"]
        arg, ncodes, vv = c15.sym_decimal(e, D)
        as_string = True
        width = None
    fn = "num2bit" if side.endswith("bit") else "num2dna"
    base = 2 if fn == "num2bit" else 4
    if as_string:
        # smallest width that holds every D-digit number
        width = 1
        while base ** width < 10 ** cfg["D"]:
            width += 1

    def cex(m):
        val = m.eval(vv, model_completion=True).as_long()
        return {"kind": "conv", "fn": fn, "value": val, "width": width, "as_string": as_string}
    try:
        if fn == "num2bit":
            r = L.number_to_bit(arg, width)
            digs = [zint(x) for x in r]
            back = L.bit_to_number(list(r), is_string=False)
        else:
            r = L.number_to_dna(arg, width)
            rc = strs.codes_of(r)
            digs = [oracles.nuc_index(c) for c in rc]
            back = L.dna_to_number(r, is_string=False)
    except core.Abort:
        raise
    except Exception as ex:
        rr, m = e.check()
        if rr != "sat":
            return {"status": "skip"}
        return {"status": "viol", "why": "raised %s: %s" % (type(ex).__name__, ex), "cex": cex(m)}
    if len(digs) != width:
        rr, m = e.check()
        return {"status": "viol", "why": "rendering has %d symbols, %d requested" % (len(digs), width), "cex": cex(m)}
    good = z3.And([digs[i] == (vv / (base ** (width - 1 - i))) % base for i in range(width)] + [zint(back) == vv])
    rr, m = e.check(z3.Not(good))
    if rr == "sat":
        return {"status": "viol", "why": "fixed-width rendering is not the padded base-%d expansion (or does not convert back)" % base, "cex": cex(m)}
    if rr != "unsat":
        return {"status": "inconclusive", "why": "solver unknown"}
    mm = e._ensure_model()
    return {"status": "ok", "sample": {"fn": fn, "value": mm.eval(vv, model_completion=True).as_long(), "width": width, "as_string": as_string}}


def replay(cex, repo_dir):
    return common.run_replay(cex["kind"], cex, repo_dir)


CANARIES = [
    {"name": "padding-on-the-wrong-side", "cfg": dict(side="int2dna", n=3),
     "patches": {"operation": [("    return nucleotides[0] * (dna_length - len(one_array)) + one_array", "    return one_array + nucleotides[0] * (dna_length - len(one_array))")]}},
]

if __name__ == "__main__":
    sys.exit(common.main("checks.c16"))
