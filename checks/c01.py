"""C01 -- decode(encode(m)) == m on every graph / start / message / table / mode / check length."""
import sys

import z3

from checks import coding, common
from symx import core, strs, oracles, stubs
from symx.core import zint

PID = "C01"
TITLE = "Encode then decode returns the original message"
EXPLANATION = ("real dsw.encode followed by real dsw.decode, executed symbolically on all arc subsets of the order-k "
               "de Bruijn graph x all start vertices x all L-bit messages (x all permutation tables); per path z3 "
               "decides decode(encode(m)) != m and 'decode raises'")
STUBS = [stubs.STUB_NOTE + " (first pass); second pass 'real_arith' runs the real string arithmetic end to end",
         "Monitor.__call__ has an empty body (progress output)"]
ASSUMPTIONS = ["paths where encode raises its documented dead-end / out-degree-3 ValueError are outside C01's precondition and "
               "are counted as skip", "paths exceeding the step budget (strand longer than max_steps) are outside the bound "
               "and counted as budget", "numpy int64 overflow not modelled (all values are below 2^L, L <= 10)"]
make_loader = coding.make_loader
BUDGET_S = {"quick": 1500, "thorough": 1800}


def jobs(tier):
    J = []

    def add(**kw):
        J.append(kw)
    if tier == "quick":
        add(k=1, L=0, fast=False, table=False, vt=0, max_steps=3)
        add(k=1, L=0, fast=True, table=False, vt=2, max_steps=3)
        add(k=1, L=1, fast=False, table=False, vt=0, max_steps=5)
        add(k=1, L=3, fast=False, table=False, vt=0, max_steps=5)
        add(k=1, L=3, fast=True, table=False, vt=0, max_steps=5)
        add(k=1, L=2, fast=False, table=True, vt=0, max_steps=4)
        add(k=1, L=2, fast=True, table=True, vt=0, max_steps=4)
        add(k=1, L=2, fast=False, table=False, vt=2, max_steps=3)
        add(k=1, L=2, fast=True, table=False, vt=3, max_steps=3)
        add(k=1, L=2, fast=True, table=False, vt=1, max_steps=3)
        add(k=1, L=1, fast=False, table=False, vt=1, max_steps=2, real_arith=True)
        add(k=1, L=2, fast=False, table=False, vt=0, max_steps=4, real_arith=True)
        add(k=1, L=0, fast=False, table=False, vt=2, max_steps=2, real_arith=True)
        add(k=1, L=1, fast=False, table=False, vt=0, max_steps=3, real_arith=True)
        add(k=2, L=2, fast=False, table=False, vt=0, max_steps=3)
        add(k=2, L=3, fast=True, table=False, vt=0, max_steps=3)
        for g_, fast in (("complete-1", False), ("complete-1", True), ("MIXED1", False), ("GC2", True)):
            add(side="wide", graphname=g_, L=64, fast=fast, pattern="max", table=False, vt=0, k=1, real_arith=True)
        add(side="wide", graphname="MIXED1", L=65, fast=False, pattern="mix", table=False, vt=2, k=1, real_arith=True)
        add(side="edit", graphname="MIXED1", L=3, fast=False, k=1)
        add(side="edit", graphname="GC2", L=3, fast=True, k=2)
    else:
        add(side="edit", graphname="MIXED1", L=4, fast=False, k=1)
        add(side="edit", graphname="GC2", L=4, fast=True, k=2)
        add(side="edit", graphname="GC2", L=3, fast=False, k=2)
        # ordered from cheap to expensive: when the time budget ends, the unfinished tail is reported as not covered (PARTIAL)
        for g_, fast in (("complete-1", False), ("complete-1", True), ("MIXED1", False), ("GC2", True), ("GC2", False)):
            for L in (54, 64, 65, 128):
                for pat in ("max", "mix"):
                    add(side="wide", graphname=g_, L=L, fast=fast, pattern=pat, table=(L == 65), vt=0 if L != 54 else 3, k=1, real_arith=True)
        for L in (0, 1, 2, 3):
            add(k=1, L=L, fast=False, table=False, vt=0, max_steps=L + 2)
            add(k=1, L=L, fast=True, table=False, vt=0, max_steps=L + 2)
        add(k=1, L=2, fast=False, table=True, vt=0, max_steps=4)
        add(k=1, L=2, fast=True, table=True, vt=0, max_steps=4)
        add(k=1, L=3, fast=True, table=True, vt=0, max_steps=4)
        for vt in (1, 2, 3, 5):
            add(k=1, L=2, fast=False, table=False, vt=vt, max_steps=3)
            add(k=1, L=2, fast=True, table=False, vt=vt, max_steps=3)
        add(k=1, L=3, fast=False, table=False, vt=0, max_steps=5, real_arith=True)
        add(k=2, L=1, fast=False, table=False, vt=0, max_steps=3)
        add(k=2, L=2, fast=False, table=False, vt=0, max_steps=3)
        add(k=2, L=2, fast=True, table=False, vt=0, max_steps=3)
        add(k=2, L=3, fast=True, table=False, vt=0, max_steps=3)
        add(k=2, L=2, fast=False, table=True, vt=0, max_steps=2)
        add(k=2, L=2, fast=False, table=False, vt=2, max_steps=2)
        add(k=1, L=4, fast=True, table=False, vt=0, max_steps=6)
        add(k=1, L=3, fast=False, table=True, vt=0, max_steps=5)
        add(k=1, L=4, fast=False, table=False, vt=0, max_steps=6)
        add(k=2, L=3, fast=False, table=False, vt=0, max_steps=4)
        add(k=2, L=4, fast=True, table=False, vt=0, max_steps=4)
        # (k=1 L=5, k=1 L=3 with a 3-symbol check and k=2 L=4 in normal mode were measured at > 4 core-hours each: left out)
    return J


def bounds(tier):
    js = jobs(tier)
    wide = [j for j in js if j.get("side") == "wide"]
    js = [j for j in js if j.get("side") not in ("wide", "edit")]
    return {"wide messages": "L in %s bits as numpy arrays on concrete graphs, 5 free bits enumerated, real string arithmetic (machine-number regimes 2^53 / 2^63)" % sorted(set(j["L"] for j in wide)),
            "orders_k": sorted(set(j["k"] for j in js)), "max_message_bits": max(j["L"] for j in js),
            "graphs": "all 2^(4^(k+1)) arc subsets per order (symbolic)", "start": "all 4^k vertices (symbolic)",
            "tables": "all (4!)^(4^k) permutation tables where table=True", "check_lengths": sorted(set(j["vt"] for j in js)),
            "max_steps": max(j["max_steps"] for j in js), "outside": "k >= 3, longer messages, strands longer than max_steps"}


WIDE_GRAPHS = {"complete-1": [[0, 1, 2, 3]] * 4}


def body_wide(e, L, cfg):
    """wide messages (beyond 2^53 / 2^63) as numpy arrays on concrete graphs: a window of free bits (first 2, last 3) is enumerated
    exhaustively by the solver, the rest follows a fixed pattern; the path then runs the REAL string arithmetic on concrete machine
    numbers.  Round trip and equality with an independent reference coder."""
    from symx import scenarios, replay_runner
    rows = WIDE_GRAPHS.get(cfg["graphname"]) or {"MIXED1": scenarios.MIXED1, "GC2": scenarios.GC2}[cfg["graphname"]]
    n = cfg["L"]
    free = set([0, 1, n - 3, n - 2, n - 1])
    bits = []
    for i in range(n):
        if i in free:
            x = z3.Int("m_%d" % i)
            e.assume(z3.And(x >= 0, x <= 1))
            bits.append(e.concretize(x))
        else:
            bits.append(1 if cfg["pattern"] == "max" else (i * 5 + 1) % 3 % 2)
    live = [v for v in range(len(rows)) if any(x >= 0 for x in rows[v])]
    sv = z3.Int("start")
    e.assume(z3.Or([sv == v for v in live]))
    start = e.concretize(sv)
    table = [[(v + j + 1) % 4 for j in range(4)] for v in range(len(rows))] if cfg.get("table") else None
    from symx import symnp
    acc, msg = symnp.array(rows), symnp.array(bits, dtype=int) if bits else symnp.array([], dtype=int)
    sh = symnp.array(table) if table else None
    cex = {"kind": "coding", "acc": [list(r) for r in rows], "bits": bits, "start": start, "fast": bool(cfg["fast"]), "vt": cfg.get("vt", 0), "table": table, "check": "all"}
    ref = replay_runner.ref_encode(rows, start, bits, bool(cfg["fast"]), table)
    try:
        r = L.encode(msg, acc, start, is_faster=bool(cfg["fast"]), vt_length=cfg.get("vt", 0), shuffles=sh)
    except core.Abort:
        raise
    except Exception as ex:
        if ref is None:
            return {"status": "skip", "why": "precondition false"}
        return {"status": "viol", "why": "encode raised %s: %s" % (type(ex).__name__, ex), "cex": cex}
    strand, chk = (r if cfg.get("vt", 0) > 0 else (r, None))
    if ref is None:
        return {"status": "skip", "why": "precondition false"}
    if str(strand) != ref:
        return {"status": "viol", "why": "strand differs from the reference coder on a wide message", "cex": cex}
    try:
        out = L.decode(strand, n, acc, start, is_faster=bool(cfg["fast"]), vt_check=chk, shuffles=sh)
    except core.Abort:
        raise
    except Exception as ex:
        return {"status": "viol", "why": "decode raised %s: %s" % (type(ex).__name__, ex), "cex": cex}
    got = [core.concrete_int(x) if core.is_sym(x) else int(x) for x in out.fix_len().elems()]
    if got != bits:
        return {"status": "viol", "why": "decode(encode(m)) != m on a wide message", "cex": cex}
    return {"status": "ok", "sample": {"wide": n, "graph": cfg["graphname"], "fast": cfg["fast"], "strand_length": len(ref)}}


def body_edit(e, L, cfg):
    """history on a shared graph object: round trip, then the caller thins the graph IN PLACE (as remove_nasty_arc does), then
    round trip again on the same object -- both must return the message (no stale per-object state)."""
    from symx import scenarios, symnp
    rows = {"MIXED1": scenarios.MIXED1, "GC2": scenarios.GC2}[cfg["graphname"]]
    bs = oracles.bits(cfg["L"])
    e.assume(oracles.bits_constraints(bs))
    live = [v for v in range(len(rows)) if any(x >= 0 for x in rows[v])]
    sv = z3.Int("start")
    e.assume(z3.Or([sv == v for v in live]))
    start = e.concretize(sv)
    acc = symnp.array(rows)
    msg = symnp.Arr.new([core.SymInt(b) for b in bs], (len(bs),), symnp.INT)
    fast = bool(cfg.get("fast"))

    def cex(m, stage):
        return {"kind": "coding_edit", "acc": [list(r) for r in rows], "bits": [m.eval(b, model_completion=True).as_long() for b in bs], "start": start, "fast": fast, "stage": stage}
    for stage in (0, 1):
        if stage == 1:
            for v in range(len(rows)):
                lv = [j for j in range(4) if rows[v][j] >= 0]
                if len(lv) >= 2:
                    acc[v, lv[-1]] = -1
                    break
        try:
            strand = L.encode(msg, acc, start, is_faster=fast)
            out = L.decode(strand, cfg["L"], acc, start, is_faster=fast)
        except core.Abort:
            raise
        except ValueError as ex:
            if any(str(ex).startswith(p) for p in coding.EXPECTED_ENCODE_ERRORS):
                return {"status": "skip", "why": str(ex)}
            r, m = e.check()
            return {"status": "viol", "why": "stage %d raised ValueError: %s" % (stage, ex), "cex": cex(m, stage)}
        except Exception as ex:
            r, m = e.check()
            return {"status": "viol", "why": "stage %d raised %s" % (stage, type(ex).__name__), "cex": cex(m, stage)}
        good = z3.And([zint(o) == b for o, b in zip(out.fix_len().elems(), bs)])
        r, m = e.check(z3.Not(good))
        if r == "sat":
            return {"status": "viol", "why": "round trip fails %s the in-place edit of the shared graph" % ("after" if stage else "before"), "cex": cex(m, stage)}
        if r != "unsat":
            return {"status": "inconclusive", "why": "solver unknown"}
    return {"status": "ok", "sample": {"history": "round trip, in-place edit, round trip", "graph": cfg["graphname"], "start": start}}


def body(e, L, cfg):
    if cfg.get("side") == "wide":
        return body_wide(e, L, cfg)
    if cfg.get("side") == "edit":
        return body_edit(e, L, cfg)
    g, bs, start, tab = coding.universe(e, cfg)
    kind, val = coding.run_encode(e, L, cfg, g, bs, start, tab)
    if kind == "skip":
        return {"status": "skip", "why": val}
    if kind == "budget":
        return {"status": "budget"}
    if kind == "exc":
        # only a violation if the graph satisfies C01's precondition
        v = coding.viol(e, "encode raised %s: %s" % (type(val).__name__, val), g, bs, start, tab, cfg, "roundtrip",
                        extra=[oracles.wellformed(g, 1), g.sel(start, lambda u: g.live(u))])
        return v or {"status": "skip", "why": "exception on ill-formed graph only"}
    strand, chk, acc, msg, sh, reads = val
    try:
        out = L.decode(strand, cfg["L"], acc, core.SymInt(start), is_faster=bool(cfg.get("fast")), vt_check=chk, shuffles=sh)
    except core.Abort:
        raise
    except Exception as ex:
        v = coding.viol(e, "decode raised %s: %s" % (type(ex).__name__, ex), g, bs, start, tab, cfg, "roundtrip")
        return v or {"status": "skip"}
    outs = out.fix_len().elems() if hasattr(out, "fix_len") else list(out)
    if len(outs) != cfg["L"]:
        return coding.viol(e, "decode returned %d bits" % len(outs), g, bs, start, tab, cfg, "roundtrip")
    good = z3.And([zint(o) == b for o, b in zip(outs, bs)]) if bs else z3.BoolVal(True)
    r, m = e.check(z3.Not(good))
    if r == "sat":
        return {"status": "viol", "why": "decode(encode(m)) != m", "cex": coding.cex_of(m, g, bs, start, tab, cfg, "roundtrip")}
    if r != "unsat":
        return {"status": "inconclusive", "why": "solver unknown on the final assertion"}
    codes = strs.codes_of(strand)
    return {"status": "ok", "sample": coding.sample_of(e, g, bs, start, tab, cfg, codes)}


def replay(cex, repo_dir):
    return common.run_replay(cex["kind"], cex, repo_dir)


CANARIES = [
    {"name": "decode-digit-order", "cfg": dict(k=1, L=3, fast=False, table=False, vt=0, max_steps=4),
     "patches": {"spiderweb": [("for location, (out_degree, number) in enumerate(saved_values[::-1]):",
                                "for location, (out_degree, number) in enumerate(saved_values):")]}},
]

if __name__ == "__main__":
    sys.exit(common.main("checks.c01"))
