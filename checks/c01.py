"""C01 -- decode(encode(m)) == m on every graph / start / message / table / mode / check length."""
import sys

import z3

from checks import coding, common
from symx import core, strs, oracles, stubs
from symx.core import zint

PID = "C01"
TITLE = "Encode then decode returns the original message"
EXPLANATION = ("real dsw.encode followed by real dsw.decode, executed symbolically on all arc subsets of the order-k "
               "de Bruijn graph x all start vertices x all L-bit messages (x all permutation tables); per path z3 "
               "decides decode(encode(m)) != m and 'decode raises'")
STUBS = [stubs.STUB_NOTE + " (first pass); second pass 'real_arith' runs the real string arithmetic end to end",
         "Monitor.__call__ has an empty body (progress output)"]
ASSUMPTIONS = ["paths where encode raises its documented dead-end / out-degree-3 ValueError are outside C01's precondition and "
               "are counted as skip", "paths exceeding the step budget (strand longer than max_steps) are outside the bound "
               "and counted as budget", "numpy int64 overflow not modelled (all values are below 2^L, L <= 10)"]
make_loader = coding.make_loader
BUDGET_S = {"quick": 1500, "thorough": 10000}


def jobs(tier):
    J = []

    def add(**kw):
        J.append(kw)
    if tier == "quick":
        add(k=1, L=0, fast=False, table=False, vt=0, max_steps=3)
        add(k=1, L=0, fast=True, table=False, vt=2, max_steps=3)
        add(k=1, L=1, fast=False, table=False, vt=0, max_steps=5)
        add(k=1, L=3, fast=False, table=False, vt=0, max_steps=5)
        add(k=1, L=3, fast=True, table=False, vt=0, max_steps=5)
        add(k=1, L=2, fast=False, table=True, vt=0, max_steps=4)
        add(k=1, L=2, fast=True, table=True, vt=0, max_steps=4)
        add(k=1, L=2, fast=False, table=False, vt=2, max_steps=3)
        add(k=1, L=2, fast=True, table=False, vt=3, max_steps=3)
        add(k=1, L=2, fast=False, table=False, vt=0, max_steps=4, real_arith=True)
        add(k=2, L=2, fast=False, table=False, vt=0, max_steps=3)
        add(k=2, L=3, fast=True, table=False, vt=0, max_steps=3)
    else:
        for L in range(0, 7):
            add(k=1, L=L, fast=False, table=False, vt=0, max_steps=L + 3)
            add(k=1, L=L, fast=True, table=False, vt=0, max_steps=L + 3)
        for L in (2, 3, 4):
            add(k=1, L=L, fast=False, table=True, vt=0, max_steps=L + 2)
            add(k=1, L=L, fast=True, table=True, vt=0, max_steps=L + 2)
        for vt in (1, 2, 3, 5):
            add(k=1, L=3, fast=False, table=False, vt=vt, max_steps=5)
            add(k=1, L=3, fast=True, table=False, vt=vt, max_steps=5)
        add(k=1, L=4, fast=False, table=False, vt=0, max_steps=6, real_arith=True)
        for L in (1, 2, 3, 4, 5):
            add(k=2, L=L, fast=False, table=False, vt=0, max_steps=L + 1)
            add(k=2, L=L, fast=True, table=False, vt=0, max_steps=L + 1)
        add(k=2, L=3, fast=False, table=True, vt=0, max_steps=4)
        add(k=2, L=3, fast=True, table=True, vt=0, max_steps=4)
        add(k=2, L=3, fast=False, table=False, vt=3, max_steps=4)
    return J


def bounds(tier):
    js = jobs(tier)
    return {"orders_k": sorted(set(j["k"] for j in js)), "max_message_bits": max(j["L"] for j in js),
            "graphs": "all 2^(4^(k+1)) arc subsets per order (symbolic)", "start": "all 4^k vertices (symbolic)",
            "tables": "all (4!)^(4^k) permutation tables where table=True", "check_lengths": sorted(set(j["vt"] for j in js)),
            "max_steps": max(j["max_steps"] for j in js), "outside": "k >= 3, longer messages, strands longer than max_steps"}


def body(e, L, cfg):
    g, bs, start, tab = coding.universe(e, cfg)
    kind, val = coding.run_encode(e, L, cfg, g, bs, start, tab)
    if kind == "skip":
        return {"status": "skip", "why": val}
    if kind == "budget":
        return {"status": "budget"}
    if kind == "exc":
        # only a violation if the graph satisfies C01's precondition
        v = coding.viol(e, "encode raised %s: %s" % (type(val).__name__, val), g, bs, start, tab, cfg, "roundtrip",
                        extra=[oracles.wellformed(g, 1), g.sel(start, lambda u: g.live(u))])
        return v or {"status": "skip", "why": "exception on ill-formed graph only"}
    strand, chk, acc, msg, sh, reads = val
    try:
        out = L.decode(strand, cfg["L"], acc, core.SymInt(start), is_faster=bool(cfg.get("fast")), vt_check=chk, shuffles=sh)
    except core.Abort:
        raise
    except Exception as ex:
        v = coding.viol(e, "decode raised %s: %s" % (type(ex).__name__, ex), g, bs, start, tab, cfg, "roundtrip")
        return v or {"status": "skip"}
    outs = out.fix_len().elems() if hasattr(out, "fix_len") else list(out)
    if len(outs) != cfg["L"]:
        return coding.viol(e, "decode returned %d bits" % len(outs), g, bs, start, tab, cfg, "roundtrip")
    good = z3.And([zint(o) == b for o, b in zip(outs, bs)]) if bs else z3.BoolVal(True)
    r, m = e.check(z3.Not(good))
    if r == "sat":
        return {"status": "viol", "why": "decode(encode(m)) != m", "cex": coding.cex_of(m, g, bs, start, tab, cfg, "roundtrip")}
    if r != "unsat":
        return {"status": "inconclusive", "why": "solver unknown on the final assertion"}
    codes = strs.codes_of(strand)
    return {"status": "ok", "sample": coding.sample_of(e, g, bs, start, tab, cfg, codes)}


def replay(cex, repo_dir):
    return common.run_replay(cex["kind"], cex, repo_dir)


CANARIES = [
    {"name": "decode-digit-order", "cfg": dict(k=1, L=3, fast=False, table=False, vt=0, max_steps=4),
     "patches": {"spiderweb": [("for location, (out_degree, number) in enumerate(saved_values[::-1]):",
                                "for location, (out_degree, number) in enumerate(saved_values):")]}},
]

if __name__ == "__main__":
    sys.exit(common.main("checks.c01"))
