"""C14 -- the three graph representations are interchangeable."""
import os
import random
import sys

import z3

from checks import common, gen
from symx import core, symnp, oracles
from symx.oracles import succ

PID = "C14"
TITLE = "The three graph representations are interchangeable"
EXPLANATION = ("real accessor_to_latter_map / latter_map_to_accessor / accessor_to_adjacency_matrix / adjacency_matrix_to_accessor / obtain_vertices / "
               "obtain_leaf_vertices on arc subsets of the de Bruijn graph (NOT only vertex-induced ones): the arcs of a window are z3 Booleans around a "
               "concrete base graph; the latter map is a dict of lists, so every path ends with a concrete graph (the solver enumerates the window "
               "exhaustively and certifies per path that the arcs are pinned); each path compares round trips, map / matrix contents, vertex listing, "
               "leaf multisets up to depth 3 from both representations against walk end points, and the rejection of an illegal matrix entry")
STUBS = []
ASSUMPTIONS = ["every path pins all free arcs (solver query per path)"]
BUDGET_S = {"quick": 900, "thorough": 1500}
SLICE_PATHS = 200
SEED = int(os.environ.get("VERIF_SEED", "0") or 0)


def make_loader(cfg):
    return {"_key": "real"}


def arc_windows(k, tier):
    N = 4 ** k
    rng = random.Random(77 * k + SEED)
    allarcs = [(v, j) for v in range(N) for j in range(4)]
    if k == 1 and tier == "thorough":
        return [([[-1] * 4 for _ in range(4)], allarcs)]      # all 2^16 arc subsets
    nfree = {("quick", 1): 9, ("quick", 2): 9, ("thorough", 2): 12, ("quick", 3): 7, ("thorough", 3): 10}[(tier, k)]
    nwin = {("quick", 1): 2, ("quick", 2): 2, ("thorough", 2): 4, ("quick", 3): 1, ("thorough", 3): 2}[(tier, k)]
    out = []
    for i in range(nwin):
        p = [0.0, 1.0, 0.5, 0.7][i % 4]
        base = [[(succ(v, j, k) if rng.random() < p else -1) for j in range(4)] for v in range(N)]
        # always include the arcs into vertex 0 and out of the last vertex (boundary indices)
        special = [(v, 0) for v in range(0, N, max(N // 4, 1))][:3] + [(N - 1, 3)]
        rest = [a for a in allarcs if a not in special]
        free = special + rng.sample(rest, nfree - len(special))
        out.append((base, free))
    return out


def jobs(tier):
    J = []
    # order-4 probes (256 vertices, indices beyond 127): the complete graph and one sparse subset, no free arcs
    full4 = [[succ(v, j, 4) for j in range(4)] for v in range(256)]
    J.append(dict(k=4, base=full4, free=[], depth=1))
    J.append(dict(k=4, base=[[(x if (v * 5 + j) % 3 else -1) for j, x in enumerate(r)] for v, r in enumerate(full4)], free=[], depth=1))
    for k in (1, 2, 3):
        for base, free in arc_windows(k, tier):
            J.append(dict(k=k, base=base, free=[list(a) for a in free], depth=3 if k <= 2 else 2))
    return J


def bounds(tier):
    js = jobs(tier)
    return {"arc_subsets_explored": sum(2 ** len(j["free"]) for j in js), "windows": [(j["k"], len(j["free"])) for j in js], "leaf_depth": "<= 3 (k <= 2), <= 2 (k = 3)",
            "outside": "arc subsets outside the windows (k=1 is complete in thorough), k >= 4, depth > 3"}


def body(e, L, cfg):
    k = cfg["k"]
    N = 4 ** k
    free = set(tuple(a) for a in cfg["free"])
    arcs = [[(z3.Bool("a_%d_%d" % (v, j)) if (v, j) in free else z3.BoolVal(cfg["base"][v][j] >= 0)) for j in range(4)] for v in range(N)]
    g = oracles.GraphU(k)
    g.arc = arcs
    symnp.WHERE_POLICY = "concrete"
    try:
        acc = g.accessor()
        # force every free arc to a concrete value first (the dict-shaped code would do it anyway, in pieces)
        for (v, j) in sorted(free):
            e.decide(arcs[v][j])
        m = e._ensure_model()
        rows = g.model_rows(m)
        diff = z3.Or([arcs[v][j] != z3.BoolVal(rows[v][j] >= 0) for (v, j) in free]) if free else z3.BoolVal(False)
        r, _ = e.check(diff)
        if r != "unsat":
            raise core.Inconclusive("path does not pin the arcs")
        acc = symnp.array(rows)       # the path pins every arc (just certified): continue on the concrete accessor
        live = [v for v in range(N) if any(x >= 0 for x in rows[v])]
        roots = sorted(set([0, N - 1] + live[:2] + ([v for v in live if v >= 128][:2] if N > 64 else [])))
        illegal = None
        for u in range(N):
            for v in range(N):
                if v not in [succ(u, j, k) for j in range(4)]:
                    illegal = [u, v]
                    break
            if illegal:
                break
        cex = {"kind": "repr", "acc": rows, "roots": roots, "depth": cfg["depth"], "illegal": illegal}

        def fail(why):
            return {"status": "viol", "why": why, "cex": cex}
        try:
            lm = L.accessor_to_latter_map(acc)
            got_lm = {core.concrete_int(a): [core.concrete_int(x) for x in b] for a, b in lm.items()}
            if got_lm != {v: [x for x in rows[v] if x >= 0] for v in live}:
                return fail("latter map content differs")
            back = L.latter_map_to_accessor(lm, k)
            if gen.concrete_rows(back) != rows:
                return fail("accessor -> latter map -> accessor differs")
            # a latter map is a dict of lists: the order inside a list carries no meaning (column = successor mod 4)
            back = L.latter_map_to_accessor({v: list(reversed([x for x in rows[v] if x >= 0])) for v in live}, k)
            if gen.concrete_rows(back) != rows:
                return fail("latter map with reordered successor lists converts to a different accessor")
            mx = L.accessor_to_adjacency_matrix(acc)
            exp_m = [[1 if v in [x for x in rows[u] if x >= 0] else 0 for v in range(N)] for u in range(N)]
            if gen.concrete_rows(mx) != exp_m:
                return fail("adjacency matrix differs from the arc set")
            back = L.adjacency_matrix_to_accessor(mx)
            if gen.concrete_rows(back) != rows:
                return fail("accessor -> matrix -> accessor differs")
            vs = L.obtain_vertices(acc)
            if [core.concrete_int(x) for x in vs.fix_len().elems()] != live:
                return fail("obtain_vertices differs from the vertices with arcs")
            for root in roots:
                for d in range(0, cfg["depth"] + 1):
                    cur = [root]
                    for _ in range(d):
                        cur = [x for u in cur for x in rows[u] if x >= 0]
                    a = L.obtain_leaf_vertices(root, d, accessor=acc)
                    b = L.obtain_leaf_vertices(root, d, latter_map=lm)
                    la = sorted(core.concrete_int(x) for x in (a.fix_len().elems() if hasattr(a, "fix_len") else list(a)))
                    lb = sorted(core.concrete_int(x) for x in (b.fix_len().elems() if hasattr(b, "fix_len") else list(b)))
                    if la != sorted(cur) or lb != sorted(cur):
                        return fail("leaf query root=%d depth=%d differs from the walk end points" % (root, d))
                    if {core.concrete_int(a_): [core.concrete_int(x) for x in b_] for a_, b_ in lm.items()} != {v: [x for x in rows[v] if x >= 0] for v in live}:
                        return fail("a leaf query modified the latter map it was given")
            for u in (range(N) if N <= 64 else [0, 1, 127, 128, 129, 200, 254, 255]):           # one illegal arc in every row in turn (order 4: eight sample rows)
                others = [x for x in range(N) if x not in [succ(u, j, k) for j in range(4)]]
                if not others:          # order 1: every vertex is a shift successor, no illegal arc exists
                    continue
                v = others[0]
                bad = symnp.array(exp_m)
                bad[u, v] = 1
                cex["illegal"] = [u, v]
                try:
                    L.adjacency_matrix_to_accessor(bad)
                    return fail("illegal matrix entry %d -> %d accepted" % (u, v))
                except ValueError:
                    pass
            cex["illegal"] = illegal
        except core.Abort:
            raise
        except core.Inconclusive:
            raise
        except Exception as ex:
            return fail("raised %s: %s" % (type(ex).__name__, ex))
        after = gen.concrete_rows(acc)
        if after != rows:
            return fail("the accessor argument was modified")
    finally:
        symnp.WHERE_POLICY = "symlen"
    return {"status": "ok", "sample": {"k": k, "arcs": sum(1 for r_ in rows for x in r_ if x >= 0), "live": len(live)}}


def replay(cex, repo_dir):
    return common.run_replay(cex["kind"], cex, repo_dir)


CANARIES = [
    {"name": "row-selector-drops-arc-into-vertex-0", "cfg": dict(k=1, base=[[-1] * 4 for _ in range(4)], free=[[0, 0], [1, 0], [2, 1]], depth=2),
     "patches": {"graphized": [("    locations = where(sum(((accessor + 1).astype(bool)), axis=1).astype(int) > 0)[0]", "    locations = where(max(accessor, axis=1) > 0)[0]")]}},
]

if __name__ == "__main__":
    sys.exit(common.main("checks.c14"))
