"""C19 -- arc removal keeps both graph views in step over any call sequence."""
import os
import random
import sys

import z3

from checks import common, gen, repair
from symx import core, symnp, oracles
from symx.core import SymBool
from symx.oracles import succ

PID = "C19"
TITLE = "Arc removal keeps both graph views in step over any call sequence"
EXPLANATION = ("inductive step: real remove_nasty_arc from an ARBITRARY consistent pre-state inside a window (arcs around a generated base graph are z3 "
               "Booleans, the latter map is built from the same arcs, the two flags are symbolic): on every returning path exactly one accessor entry "
               "changed, it was an arc and is -1 now, it carries the maximum of an independently computed score table (leaf sets by breadth-first "
               "search), the returned latter map equals the map of the returned accessor, and the real calculate_intersection_score equals the "
               "independent table (shape of the accessor, positive only on arcs).  Consistency is preserved by one call from any consistent state, "
               "hence by induction over every call sequence until the first raise; short concrete sequences (3 calls) are run on top")
STUBS = []
ASSUMPTIONS = ["pre-states are the arc subsets inside the windows; every path pins all free arcs (solver query per path)",
               "induction over call sequences is a written argument on top of the solver-checked step"]
BUDGET_S = {"quick": 1200, "thorough": 1500}
SLICE_PATHS = 60
SEED = int(os.environ.get("VERIF_SEED", "0") or 0)


def make_loader(cfg):
    return {"_key": "real"}


def windows(tier):
    rng = random.Random(4242 + SEED)
    out = []
    bases = [("gc-balanced-2", 6 if tier == "quick" else 9), ("mixed-2", 6 if tier == "quick" else 9), ("complete-2", 5 if tier == "quick" else 8)]
    if tier == "thorough":
        bases += [("no-homopolymer-2", 9), ("no-repeat-3", 7), ("complete-1", 12)]
    else:
        bases += [("complete-1", 8)]
    bases += [("empty-1", 8 if tier == "quick" else 12), ("empty-2", 7 if tier == "quick" else 10)]      # sparse pre-states (all scores zero, single arcs)
    for name, nfree in bases:
        if name.startswith("empty-"):
            k = int(name[-1])
            rows = [[-1] * 4 for _ in range(4 ** k)]
        else:
            k, rows = repair.graph_by_name(name)
        N = 4 ** k
        allarcs = [(v, j) for v in range(N) for j in range(4)]
        special = [(v, 0) for v in range(0, N, max(N // 4, 1))][:2]
        rest = [a for a in allarcs if a not in special]
        free = special + rng.sample(rest, nfree - len(special))
        out.append(dict(k=k, name=name, base=rows, free=[list(a) for a in free]))
    return out


def jobs(tier):
    return [dict(w, steps=3) for w in windows(tier)]


def bounds(tier):
    js = jobs(tier)
    return {"pre_states": sum(2 ** len(j["free"]) for j in js), "windows": [(j["name"], len(j["free"])) for j in js], "flags": "all 4 combinations (symbolic)",
            "sequence_length": "1 (inductive step) + concrete sequences of 3", "outside": "graphs outside the windows, k >= 4"}


def ref_scores(rows, k, ins, dele):
    N = len(rows)
    succs = [[x for x in r if x >= 0] for r in rows]

    def leaves(v, d):
        cur = [v]
        for _ in range(d):
            cur = [x for u in cur for x in succs[u]]
        return set(cur)
    sc = [[0] * 4 for _ in range(N)]
    for c in range(N):
        S = succs[c]
        if not S:
            continue
        B = [leaves(s, k - 1) for s in S]
        for i in range(len(S)):
            for j in range(i + 1, len(S)):
                u = len(B[i] | B[j])
                sc[c][S[i] % 4] += u
                sc[c][S[j] % 4] += u
        if ins:
            for i, s in enumerate(S):
                for t in succs[s]:
                    sc[c][s % 4] += len(B[i] | leaves(t, k - 1))
        if dele:
            D = leaves(c, k - 1)
            for i, s in enumerate(S):
                sc[c][s % 4] += len(B[i] | D)
    return sc


def body(e, L, cfg):
    k = cfg["k"]
    N = 4 ** k
    free = set(tuple(a) for a in cfg["free"])
    arcs = [[(z3.Bool("a_%d_%d" % (v, j)) if (v, j) in free else z3.BoolVal(cfg["base"][v][j] >= 0)) for j in range(4)] for v in range(N)]
    g = oracles.GraphU(k)
    g.arc = arcs
    fi, fd = z3.Bool("has_insertion"), z3.Bool("has_deletion")
    for (v, j) in sorted(free):
        e.decide(arcs[v][j])
    ins, dele = e.decide(fi), e.decide(fd)
    m = e._ensure_model()
    rows = g.model_rows(m)
    diff = z3.Or([arcs[v][j] != z3.BoolVal(rows[v][j] >= 0) for (v, j) in free] + [fi != z3.BoolVal(ins), fd != z3.BoolVal(dele)])
    r, _ = e.check(diff)
    if r != "unsat":
        raise core.Inconclusive("path does not pin the pre-state")
    cex = {"kind": "nasty", "acc": rows, "has_insertion": ins, "has_deletion": dele, "steps": cfg["steps"]}
    symnp.WHERE_POLICY = "concrete"
    try:
        cur = [list(r_) for r_ in rows]
        acc = symnp.array(cur)
        lm = {v: [x for x in cur[v] if x >= 0] for v in range(N) if any(x >= 0 for x in cur[v])}
        for step in range(cfg["steps"]):
            sc = ref_scores(cur, k, ins, dele)
            try:
                got = L.calculate_intersection_score({a: list(b) for a, b in lm.items()}, k, ins, dele)
            except core.Abort:
                raise
            except Exception as ex:
                got = None
            if got is not None:
                if got.shape != (N, 4) or gen.concrete_rows(got) != sc:
                    return {"status": "viol", "why": "step %d: intersection scores differ from the independent table" % step, "cex": cex}
            try:
                res = L.remove_nasty_arc(acc, lm, 0, SymBool(fi), SymBool(fd))
            except core.Abort:
                raise
            except core.Inconclusive:
                raise
            except Exception as ex:
                return {"status": "ok", "sample": {"graph": cfg["name"], "steps_done": step, "ended_by": type(ex).__name__}}
            acc2, lm2, arc, scores = res
            new = gen.concrete_rows(acc2)
            changed = [(v, j) for v in range(N) for j in range(4) if cur[v][j] != new[v][j]]
            if len(changed) != 1 or cur[changed[0][0]][changed[0][1]] < 0 or new[changed[0][0]][changed[0][1]] != -1:
                return {"status": "viol", "why": "step %d: not exactly one existing arc removed (%s)" % (step, changed[:4]), "cex": cex}
            v, j = changed[0]
            mx = max(max(r_) for r_ in sc)
            if sc[v][j] != mx:
                return {"status": "viol", "why": "step %d: removed arc does not carry the maximum score" % step, "cex": cex}
            if (core.concrete_int(arc[0]), core.concrete_int(arc[1])) != (v, cur[v][j]):
                return {"status": "viol", "why": "step %d: reported arc differs from the removed one" % step, "cex": cex}
            exp_lm = {u: [x for x in new[u] if x >= 0] for u in range(N) if any(x >= 0 for x in new[u])}
            got_lm = {core.concrete_int(a): [core.concrete_int(x) for x in b] for a, b in lm2.items()}
            if got_lm != exp_lm:
                return {"status": "viol", "why": "step %d: latter map and accessor describe different graphs" % step, "cex": cex}
            cur, acc, lm = new, acc2, lm2
    finally:
        symnp.WHERE_POLICY = "symlen"
    return {"status": "ok", "sample": {"graph": cfg["name"], "arcs_before": sum(1 for r_ in rows for x in r_ if x >= 0), "flags": [ins, dele], "steps_done": cfg["steps"]}}


def replay(cex, repo_dir):
    return common.run_replay(cex["kind"], cex, repo_dir)


CANARIES = [
    {"name": "latter-map-key-dropped-when-only-vertex-0-remains", "cfg": dict([w for w in windows("quick") if w["name"] == "complete-1"][0], steps=3),
     "patches": {"spiderweb": [("    if len(latter_map[former]) == 0:\n        del latter_map[former]", "    if not any(latter_map[former]):\n        del latter_map[former]")]}},
]

if __name__ == "__main__":
    sys.exit(common.main("checks.c19"))
