"""C03 -- graph generation returns exactly the largest closed sub-graph, or ValueError."""
import sys

from checks import common, gen

PID = "C03"
TITLE = "The coding graph is the largest closed subgraph, or a ValueError"
EXPLANATION = ("real connect_coding_graph (with the real networkx in the threshold-1 branch) on a symbolic vertex mask: all 16 masks at "
               "k=1, windows of free mask bits around concrete masks at k=2/3, thresholds 1..4, bool and 0/1-int masks; each path is "
               "compared with an independent greatest-fixed-point + reachability oracle: accessor, vertex description, ValueError <=> "
               "empty, no other exception, input unchanged, and (t >= 2) the latter-map trimming gives the same graph")
STUBS = ["Monitor.__call__ has an empty body"]
ASSUMPTIONS = ["every path pins the whole mask (checked per path by the solver query pc AND mask != model-mask = unsat); the comparison with the "
               "oracle is then concrete", "monotonicity (smaller mask never yields a larger graph) follows from equality with the oracle, which is "
               "monotone by construction; it is not re-checked by self-composition"]
BUDGET_S = {"quick": 1200, "thorough": 2400}
SLICE_PATHS = 200


def make_loader(cfg):
    return {"_key": "real"}


def jobs(tier):
    J = []
    for t in (1, 2, 3, 4):
        for dt in ("int", "bool"):
            J.append(dict(k=1, t=t, free=list(range(4)), base=[0] * 4, dtype=dt))
    ws2 = gen.windows(2, tier)
    for i, (base, free) in enumerate(ws2):
        for t in ((1, 2, 3, 4) if tier == "thorough" else (1, 2, 3)):
            J.append(dict(k=2, t=t, free=free, base=base, dtype="bool" if (i + t) % 2 else "int"))
    for i, (base, free) in enumerate(gen.windows(3, tier)):
        for t in (1, 2) if tier == "quick" else (1, 2, 3):
            J.append(dict(k=3, t=t, free=free, base=base, dtype="bool" if (i + t) % 2 else "int"))
    base, free = gen.cycle_window3()
    for t in (1, 2):
        J.append(dict(k=3, t=t, free=free, base=base, dtype="int"))
    J.append(dict(side="seq"))
    for k in (3, 4):
        for base, free in gen.road_windows(k):
            for t in (1, 2):
                J.append(dict(k=k, t=t, free=free, base=base, dtype="int"))
    return J


def bounds(tier):
    js = jobs(tier)
    js = [j for j in js if j.get("side") != "seq"]
    return {"k=1": "all 16 masks x t=1..4 x {int,bool}", "history": "one sequence of 8 calls with observed lengths 2,3,2,1,3,2,1,2 in one process", "k=2": "%d windows of %d free bits" % (len(gen.windows(2, tier)), len(gen.windows(2, tier)[0][1])),
            "k=3": "%d windows of %d free bits" % (len(gen.windows(3, tier)), len(gen.windows(3, tier)[0][1])),
            "masks_explored": sum(2 ** len(j["free"]) for j in js), "many-round masks": "induced dead-end roads of 15 (k=3) and 26 (k=4) vertices", "outside": "masks outside the windows, k >= 4"}


SEQ = [(2, [0, 1, 1, 0, 1, 0, 0, 1, 1, 0, 0, 1, 0, 1, 1, 0], 1), (3, [1 if (v * 7 + 3) % 5 else 0 for v in range(64)], 1),
       (2, [0, 1, 1, 0, 1, 0, 0, 1, 1, 0, 0, 1, 0, 1, 1, 0], 1), (1, [1, 1, 0, 1], 1), (3, [1 if (v * 7 + 3) % 5 else 0 for v in range(64)], 2),
       (2, [1] * 16, 2), (1, [1, 1, 0, 1], 2), (2, [1, 1, 0, 0, 1, 1, 0, 0, 0, 0, 0, 0, 0, 0, 0, 0], 1)]


def body_seq(e, L, cfg):
    """history: calls with different observed lengths / masks in ONE process must each equal the oracle (memo keys, cached successors)."""
    from symx import symnp
    symnp.WHERE_POLICY = "concrete"
    try:
        for i, (k, mask, t) in enumerate(SEQ):
            keep = gen.gfp(k, mask, t)
            try:
                vs, acc = L.connect_coding_graph(k, symnp.array(mask), t)
                rows = gen.concrete_rows(acc)
            except ValueError:
                rows = None
            except Exception as ex:
                rows = "exc:" + type(ex).__name__
            exp = gen.induced(k, keep) if any(keep) else None
            if rows != exp:
                return {"status": "viol", "why": "call %d of the sequence (k=%d, t=%d) differs from the oracle" % (i, k, t), "cex": {"kind": "gen_seq", "upto": i}}
    finally:
        symnp.WHERE_POLICY = "symlen"
    return {"status": "ok", "sample": {"sequence": [(k, t) for k, _, t in SEQ]}}


def body(e, L, cfg):
    if cfg.get("side") == "seq":
        return body_seq(e, L, cfg)
    return gen.body_exact(e, L, cfg)


def replay(cex, repo_dir):
    return common.run_replay(cex["kind"], cex, repo_dir)


CANARIES = [
    {"name": "threshold-compare-off-by-one", "cfg": dict(k=1, t=2, free=list(range(4)), base=[0] * 4, dtype="int"),
     "patches": {"spiderweb": [("new_vertices[vertex_index] = sum(vertices[latter_indices]) >= threshold", "new_vertices[vertex_index] = sum(vertices[latter_indices]) > threshold")]}},
    {"name": "cascade-drops-predecessors", "cfg": dict(k=2, t=1, free=[0, 4, 12, 5, 7, 13], base=[0] * 16, dtype="int"),
     "patches": {"spiderweb": [("                                new_pairs += [(i, former_index) for i in obtain_formers(former_index, observed_length)]",
                                "                                new_pairs = [(i, former_index) for i in obtain_formers(former_index, observed_length)]")]}},
]

if __name__ == "__main__":
    sys.exit(common.main("checks.c03"))
