"""C11 -- vertex discovery and the valid graph mirror the filter exactly."""
import sys

import z3

from checks import common, gen
from symx import core, symnp, oracles
from symx.core import SymBool, SymInt

PID = "C11"
TITLE = "Vertex discovery and the valid graph mirror the filter exactly"
EXPLANATION = ("(a) real find_vertices with a user-defined filter written exactly as the documentation's interface (valid(self, "
               "dna_string)) whose verdict is an uninterpreted Boolean per k-mer: returned mask[i] == U(kmer_i) for an independently "
               "rendered k-mer, ValueError <=> all verdicts false, nothing else raised; also with built-in LocalBioFilter configurations. "
               "(b) real connect_valid_graph on a symbolic mask (windows) == induced sub-graph, ValueError <=> empty mask")
STUBS = ["Monitor.__call__ has an empty body", "user-defined filter = uninterpreted predicate (one z3 Bool per k-mer)"]
ASSUMPTIONS = ["floats are modelled as reals for valid_rate = sum/len (a ratio of small integers, compared with 0 only)"]
BUDGET_S = {"quick": 900, "thorough": 1500}
SLICE_PATHS = 200


def make_loader(cfg):
    return {"_key": "real"}


LOCAL_CONFIGS = [dict(runs=1, gc=None, motifs=None), dict(runs=2, gc=[0.5, 0.5], motifs=None), dict(runs=None, gc=[0.25, 0.75], motifs=["GC"]),
                 dict(runs=2, gc=[0.4, 0.6], motifs=["ACA", "GG"]), dict(runs=None, gc=[1.0, 1.0], motifs=None),
                 dict(runs=None, gc=None, motifs=["A", "C", "G", "T"])]


def jobs(tier):
    J = []
    for k in ((1, 2, 3, 4) if tier == "quick" else (1, 2, 3, 4, 5)):
        J.append(dict(side="find", k=k))
    for k in (2, 3) if tier == "quick" else (2, 3, 4):
        for c in LOCAL_CONFIGS:
            if c["runs"] is not None and c["runs"] > k:
                continue
            if c["motifs"] and max(len(x) for x in c["motifs"]) > k:
                continue
            J.append(dict(side="local", k=k, local=dict(c, k=k)))
    J.append(dict(side="sparse", k=8, accepted=["ATATATAT"]))
    J.append(dict(side="sparse", k=7, accepted=["ACGTACG", "TTTTTTT", "GATTACA"]))
    J.append(dict(side="history", k=2))
    J.append(dict(side="history", k=3))
    J.append(dict(side="valid", k=1, free=list(range(4)), base=[0] * 4, dtype="int"))
    J.append(dict(side="valid", k=1, free=list(range(4)), base=[0] * 4, dtype="bool"))
    for i, (base, free) in enumerate(gen.windows(2, tier)):
        J.append(dict(side="valid", k=2, free=free, base=base, dtype="bool" if i % 2 else "int"))
    for i, (base, free) in enumerate(gen.windows(3, tier)):
        J.append(dict(side="valid", k=3, free=free, base=base, dtype="int" if i % 2 else "bool"))
    return J


def bounds(tier):
    js = jobs(tier)
    return {"find_vertices": "k = %s, all 2^(4^k) filters at once (uninterpreted verdicts)" % sorted(j["k"] for j in js if j["side"] == "find"),
            "local_filter_configs": len([j for j in js if j["side"] == "local"]),
            "valid_graph_masks": sum(2 ** len(j["free"]) for j in js if j["side"] == "valid"), "outside": "k >= 5 (quick) / 6 (thorough) for find_vertices; masks outside the windows for k >= 2 (quick) / k >= 3 (thorough)"}


def kmer(v, k):
    return "".join("ACGT"[(v // 4 ** (k - 1 - i)) % 4] for i in range(k))


HISTORY = [dict(runs=1, gc=None, motifs=None), dict(runs=None, gc=[0.5, 0.5], motifs=None), dict(runs=None, gc=None, motifs=["AC"]), dict(runs=1, gc=None, motifs=["G"]),
           dict(runs=None, gc=[0.0, 0.5], motifs=None), dict(runs=None, gc=None, motifs=["T"])]


def body_history(e, L, cfg):
    """short-lived filter objects one after the other (a new object may get the address of a dead one) and one filter object that is
    re-configured between calls: every mask must mirror the filter that was passed in THIS call."""
    k = cfg["k"]
    N = 4 ** k
    for i, c in enumerate(HISTORY):
        f = L.LocalBioFilter(observed_length=k, max_homopolymer_runs=c["runs"], gc_range=c["gc"], undesired_motifs=c["motifs"])
        exp = [bool(f.valid(kmer(v, k))) for v in range(N)]
        try:
            got = [bool(x) for x in L.find_vertices(k, f).tolist()]
        except ValueError:
            got = [False] * N
        del f
        if got != exp:
            return {"status": "viol", "why": "call %d of the history: mask does not mirror the filter of this call" % i, "cex": {"kind": "find_history", "k": k}}
    f = L.LocalBioFilter(observed_length=k, undesired_motifs=["A"])
    m1 = [bool(x) for x in L.find_vertices(k, f).tolist()]
    f.undesired_motifs = ["C"]
    exp = [bool(f.valid(kmer(v, k))) for v in range(N)]
    m2 = [bool(x) for x in L.find_vertices(k, f).tolist()]
    if m2 != exp:
        return {"status": "viol", "why": "re-configured filter object gets a stale mask", "cex": {"kind": "find_history", "k": k}}
    return {"status": "ok", "sample": {"history": "%d short-lived filters + 1 re-configured filter" % len(HISTORY), "k": k}}


def body(e, L, cfg):
    if cfg["side"] == "valid":
        return gen.body_valid(e, L, cfg)
    if cfg["side"] == "history":
        return body_history(e, L, cfg)
    if cfg["side"] == "sparse":
        # concrete probe outside the symbolic bound: a very sparse user-defined filter at a large observed length
        acc_ = set(cfg["accepted"])

        class Sparse(L.DefaultBioFilter):
            def __init__(self):
                super().__init__(screen_name="sparse")

            def valid(self, dna_string):
                return str(dna_string) in acc_
        cex = {"kind": "find_vertices", "k": cfg["k"], "accepted": sorted(acc_)}
        try:
            r = L.find_vertices(cfg["k"], Sparse())
        except core.Abort:
            raise
        except Exception as ex:
            return {"status": "viol", "why": "find_vertices raised %s although the filter accepts %d k-mers" % (type(ex).__name__, len(acc_)), "cex": cex}
        got = [kmer(v, cfg["k"]) for v, x in enumerate(r.tolist()) if x]
        if sorted(got) != sorted(acc_):
            return {"status": "viol", "why": "sparse filter: mask marks %s" % got[:5], "cex": cex}
        return {"status": "ok", "sample": {"sparse": sorted(acc_), "k": cfg["k"]}}
    k = cfg["k"]
    N = 4 ** k
    if cfg["side"] == "local":
        c = cfg["local"]
        f = L.LocalBioFilter(observed_length=c["k"], max_homopolymer_runs=c["runs"], gc_range=c["gc"], undesired_motifs=c["motifs"])
        exp = [bool(f.valid(kmer(v, k))) for v in range(N)]
        cex = {"kind": "find_vertices", "k": k, "local": c}
        try:
            r = L.find_vertices(k, f)
        except core.Abort:
            raise
        except ValueError as ex:
            if any(exp):
                return {"status": "viol", "why": "ValueError although the filter accepts k-mers", "cex": cex}
            return {"status": "ok", "sample": {"config": c, "outcome": "ValueError"}}
        except Exception as ex:
            return {"status": "viol", "why": "find_vertices raised %s: %s" % (type(ex).__name__, ex), "cex": cex}
        got = [bool(x) for x in r.tolist()]
        if got != exp or not any(exp):
            return {"status": "viol", "why": "mask differs from the filter verdicts", "cex": cex}
        return {"status": "ok", "sample": {"config": c, "k": k, "accepted": sum(exp)}}
    # uninterpreted user-defined filter, written against the documented interface
    U = {}
    seen = []

    class UserFilter(L.DefaultBioFilter):
        def __init__(self):
            super().__init__(screen_name="user")

        def valid(self, dna_string):
            s = str(dna_string) if isinstance(dna_string, str) else dna_string.concretize()
            seen.append(s)
            if s not in U:
                U[s] = z3.Bool("U_" + s)
            return SymBool(U[s])
    for v in range(N):
        U[kmer(v, k)] = z3.Bool("U_" + kmer(v, k))

    def cex_of(m):
        return {"kind": "find_vertices", "k": k, "accepted": [s for s, b in U.items() if z3.is_true(m.eval(b, model_completion=True))]}
    anyacc = z3.Or([U[kmer(v, k)] for v in range(N)])
    try:
        r = L.find_vertices(k, UserFilter())
    except core.Abort:
        raise
    except ValueError as ex:
        rr, m = e.check(anyacc)
        if rr == "sat":
            return {"status": "viol", "why": "ValueError although the filter accepts some k-mer", "cex": cex_of(m)}
        return {"status": "ok", "sample": {"k": k, "outcome": "ValueError <=> filter accepts nothing"}}
    except Exception as ex:
        rr, m = e.check()
        return {"status": "viol", "why": "find_vertices raised %s: %s" % (type(ex).__name__, ex), "cex": cex_of(m)}
    es = r.fix_len().elems()
    if len(es) != N:
        rr, m = e.check()
        return {"status": "viol", "why": "mask has %d entries" % len(es), "cex": cex_of(m)}
    good = z3.And([core.zbool(es[v]) == U[kmer(v, k)] for v in range(N)] + [anyacc])
    rr, m = e.check(z3.Not(good))
    if rr == "sat":
        return {"status": "viol", "why": "mask differs from the filter verdicts (or empty filter accepted)", "cex": cex_of(m)}
    if rr != "unsat":
        return {"status": "inconclusive", "why": "solver unknown"}
    return {"status": "ok", "sample": {"k": k, "filter_calls": len(seen), "outcome": "mask[i] == U(kmer_i) for all i"}}


def replay(cex, repo_dir):
    return common.run_replay(cex["kind"], cex, repo_dir)


CANARIES = [
    {"name": "last-vertex-skipped", "cfg": dict(side="find", k=2),
     "patches": {"spiderweb": [("    for vertex_index in range(len(vertices)):\n        dna_sequence = number_to_dna(", "    for vertex_index in range(len(vertices) - 1):\n        dna_sequence = number_to_dna(")]}},
    {"name": "valid-graph-one-endpoint", "cfg": dict(side="valid", k=1, free=list(range(4)), base=[0] * 4, dtype="int"),
     "patches": {"spiderweb": [("                for position, latter_vertex_index in enumerate(latters):\n                    if vertices[latter_vertex_index]:\n                        accessor[vertex_index][position] = latter_vertex_index\n\n            if verbose:\n                monitor(vertex_index + 1, len(vertices))\n\n        if verbose:\n            print(\"Valid graph is created.\")",
                                "                for position, latter_vertex_index in enumerate(latters):\n                    if True:\n                        accessor[vertex_index][position] = latter_vertex_index\n\n            if verbose:\n                monitor(vertex_index + 1, len(vertices))\n\n        if verbose:\n            print(\"Valid graph is created.\")")]}},
]

if __name__ == "__main__":
    sys.exit(common.main("checks.c11"))
