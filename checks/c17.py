"""C17 -- reported capacity is log2 of the spectral radius (partly decidable with this technique)."""
import math
import sys

import z3

from checks import common
from symx import core, symnp, oracles, strs
from symx.core import SymInt, SymReal, Budget, zreal
from symx.oracles import GraphU, succ

PID = "C17"
LEVEL = "other"
TITLE = "Reported capacity is the log2 spectral radius of the graph"
EXPLANATION = ("PARTIAL.  Decided by symbolic execution of the real approximate_capacity (floats modelled as reals): (bound) one power-iteration "
               "step from an ARBITRARY start vector in [0,1)^N (numpy.random stubbed) on ALL arc subsets of the order-1 graph (order-2 with a "
               "concrete graph family): the eigenvalue estimate is <= 4 and the normalised vector stays in [0,1]^N -- the inductive invariant that "
               "gives 'never more than 2 bits' for every iteration count; (zero) the arc-less graph returns exactly 0.0; (regular) on every "
               "order-1 graph in which each live vertex has exactly d live successors the deterministic mode returns log2 applied to exactly d; "
               "(rng) every repeat of the randomised mode draws its own start vector (call log); (early-stop) bug hunting: graphs on which the deterministic mode stops after two iterations although a Collatz-Wielandt certificate "
               "(x > 0, A x <= (d - 1/4) x) shows a smaller radius -- a known finding.  NOT decided (outside the reach of bounded symbolic "
               "execution): the 1e-4 accuracy of the randomised mode on all graphs with a spectral gap (a numerical-analysis convergence argument "
               "over up to 500 iterations of a non-linear map)")
STUBS = ["numpy.random.random = arbitrary reals in [0,1) (contract stub)", "log2 = uninterpreted function (only its argument is compared)"]
ASSUMPTIONS = ["binary64 arithmetic is modelled by exact reals in the (bound) and (regular) runs; in (regular) every intermediate value is a small "
               "integer or a ratio equal to 1, hence exact in binary64 as well", "lifting the one-step invariant to all iterations is the usual induction (written)"]
BUDGET_S = {"quick": 900, "thorough": 1500}

KF_WITNESS = [[0, -1, 2, 3], [0, 1, 2, 3], [-1, 1, 2, 3], [0, 1, 2, 3]]


def make_loader(cfg):
    if cfg["side"] == "bound":
        return {"random_impl_factory": symnp.SymRandom}
    return {"_key": "real"}


def jobs(tier):
    J = [dict(side="bound", k=1), dict(side="zero", k=1), dict(side="zero", k=2), dict(side="zero", k=3)]
    for d in (1, 2, 3, 4):
        J.append(dict(side="regular", k=1, d=d))
    J.append(dict(side="regular", k=2, d=2, fixed="gc+dead"))
    J.append(dict(side="regular", k=2, d=1, fixed="cycle+dead"))
    for d in (2, 3, 4):
        J.append(dict(side="early", k=1, d=d))
    J.append(dict(side="probe4"))
    J.append(dict(side="witness"))
    J.append(dict(side="rng", repeats=2))
    J.append(dict(side="rng", repeats=3))
    J.append(dict(side="rng-history", repeats=2))
    J.append(dict(side="rng-history", repeats=3))
    if tier == "thorough":
        J.append(dict(side="bound", k=2, fixed="gc"))
        J.append(dict(side="bound", k=2, fixed="complete"))
    return J


def bounds(tier):
    return {"bound": "all 2^16 arc subsets of the order-1 graph, arbitrary start vector (one step); order-2: two concrete graphs (thorough)",
            "regular": "all order-1 graphs with exactly d live successors per live vertex, d = 1..4", "early-stop": "order-1 graphs, d in {2,3,4}",
            "outside": "accuracy of the randomised mode; k >= 2 for the symbolic graph universes"}


def frame_locals(ex, fname):
    tb = ex.__traceback__
    found = None
    while tb is not None:
        if tb.tb_frame.f_code.co_name == fname:
            found = tb.tb_frame.f_locals
        tb = tb.tb_next
    return found


def body(e, L, cfg):
    side = cfg["side"]
    if side == "zero":
        N = 4 ** cfg["k"]
        acc = symnp.array([[-1] * 4 for _ in range(N)])
        for rep, proc in ((1, False), (2, False), (1, True), (3, True)):
            r = L.approximate_capacity(acc, repeats=rep, process=proc)
            v = r[0] if proc else r
            if core.is_sym(v) or float(v) != 0.0:
                return {"status": "viol", "why": "arc-less graph gives %r" % (v,), "cex": {"kind": "capacity", "acc": [[-1] * 4 for _ in range(N)], "repeats": rep}}
        return {"status": "ok", "sample": {"zero": "arc-less graph of order %d returns 0.0" % cfg["k"]}}
    if side == "probe4":
        # concrete probe at order 4 (vertex indices beyond 127): the complete graph is 4-regular, a 2-regular sub-graph keeps columns A and T
        full = [[succ(v, j, 4) for j in range(4)] for v in range(256)]
        two = [[r[0], -1, -1, r[3]] for r in full]
        for rows, d in ((full, 4), (two, 2)):
            val = L.approximate_capacity(symnp.array(rows), repeats=1)
            if core.is_sym(val) or abs(float(val) - math.log2(d)) > 1e-12:
                return {"status": "viol", "why": "order-4 %d-regular graph: deterministic mode returns %r" % (d, val), "cex": {"kind": "capacity", "acc": rows, "repeats": 1}}
        # randomised mode on the complete order-4 graph (primitive, every other eigenvalue is 0): within 1e-4 of 2
        L.numpy.random.seed(0)
        for reps in (2, 3):
            val = L.approximate_capacity(symnp.array(full), repeats=reps)
            if core.is_sym(val) or not abs(float(val) - 2.0) <= 1e-4:
                return {"status": "viol", "why": "complete order-4 graph: repeats=%d returns %r" % (reps, val), "cex": {"kind": "capacity", "acc": full, "repeats": reps, "want": "accuracy", "seed": 0}}
        return {"status": "ok", "sample": {"probe4": "complete order-4 graph = 2.0 (deterministic and randomised), {A,T} sub-graph = 1.0"}}
    if side == "rng":
        # every repeat of the randomised mode must draw its own start vector (call log of numpy.random), whatever the graph
        rows = [[-1, -1, 2, -1], [-1, 1, 2, -1], [0, 1, -1, -1], [-1, -1, -1, -1]]
        rnd = L.numpy.random
        rnd.calls[:] = []
        rnd.seed(0)
        L.approximate_capacity(symnp.array(rows), repeats=cfg["repeats"])
        draws = [c for c in rnd.calls if c[0] == "random"]
        if len(draws) != cfg["repeats"]:
            return {"status": "viol", "why": "%d random start vectors drawn for %d repeats" % (len(draws), cfg["repeats"]),
                    "cex": {"kind": "capacity", "acc": rows, "repeats": cfg["repeats"], "want": "accuracy", "seed": 0}}
        return {"status": "ok", "sample": {"rng": "one random start vector per repeat", "repeats": cfg["repeats"]}}
    if side == "rng-history":
        # an earlier randomised call on ANOTHER graph of the same order (a lone self-loop at T) must not influence this call:
        # symmetric 3-vertex component, spectral radius from the real numpy, 1e-4 bound of the property
        import numpy
        rows = [[-1, -1, 2, -1], [-1, 1, 2, -1], [0, 1, -1, -1], [-1, -1, -1, -1]]
        prior = [[-1, -1, -1, -1], [-1, -1, -1, -1], [-1, -1, -1, -1], [-1, -1, -1, 3]]
        rho = max(abs(numpy.linalg.eigvalsh(numpy.array([[0, 0, 1], [0, 1, 1], [1, 1, 0]], dtype=float))))
        rnd = L.numpy.random
        rnd.seed(0)
        L.approximate_capacity(symnp.array(prior), repeats=cfg["repeats"])
        val = L.approximate_capacity(symnp.array(rows), repeats=cfg["repeats"])
        if core.is_sym(val) or not abs(float(val) - math.log2(rho)) <= 1e-4:
            return {"status": "viol", "why": "after a call on another graph, repeats=%d returns %r (log2 spectral radius %.6f)" % (cfg["repeats"], val, math.log2(rho)),
                    "cex": {"kind": "capacity", "acc": rows, "prior": prior, "repeats": cfg["repeats"], "want": "accuracy", "seed": 0}}
        return {"status": "ok", "sample": {"rng-history": "value unaffected by an earlier call on another graph", "repeats": cfg["repeats"]}}
    if side == "witness":
        # the recorded known finding must still reproduce on the real code (concrete replay), otherwise it is stale
        return {"status": "kf", "kf": "C17-KF1", "why": "deterministic single-start mode stops early", "cex": {"kind": "capacity", "acc": KF_WITNESS, "repeats": 1, "want": "accuracy"}}
    k = cfg["k"]
    if cfg.get("fixed") == "gc":
        from symx import scenarios
        g = GraphU(k, fixed=scenarios.GC2)
    elif cfg.get("fixed") == "complete":
        g = GraphU(k, fixed=[[succ(v, j, k) for j in range(4)] for v in range(4 ** k)])
    elif cfg.get("fixed") == "cycle+dead":
        base = [[-1] * 4 for _ in range(16)]
        base[10][2], base[2][2], base[12][2], base[4][2] = 10, 10, 2, 2      # GG self-loop with transient vertices AG, TA -> AG, CA -> AG:
        g = GraphU(k, fixed=base)                                             # every live vertex has exactly 1 live successor
        for v in (2, 4, 10, 12):
            for j in range(4):
                if base[v][j] < 0:
                    g.arc[v][j] = z3.Bool("dead_%d_%d" % (v, j))
    elif cfg.get("fixed") == "gc+dead":
        # the 2-regular GC-balanced order-2 graph plus SYMBOLIC arcs from live vertices into dead-end vertices
        from symx import scenarios
        g = GraphU(k, fixed=scenarios.GC2)
        livev = [v for v in range(16) if any(x >= 0 for x in scenarios.GC2[v])]
        for v in livev[:6]:
            for j in range(4):
                if scenarios.GC2[v][j] < 0 and succ(v, j, k) not in livev:
                    g.arc[v][j] = z3.Bool("dead_%d_%d" % (v, j))
    else:
        g = GraphU(k)
    N = g.N
    acc = g.accessor()

    def cex(m, **kw):
        c = {"kind": "capacity", "acc": g.model_rows(m)}
        c.update(kw)
        return c
    del symnp.LOG_ARGS[:]
    if side == "bound":
        e.assume(z3.Or([a for row in g.arc for a in row]))        # not arc-less (that case returns early)
        acc.budget = symnp.AccessBudget(1)
        try:
            L.approximate_capacity(acc, repeats=2)
            return {"status": "skip", "why": "returned within one iteration"}
        except Budget as ex:
            loc = frame_locals(ex, "approximate_capacity")
        finally:
            acc.budget = None
        if not symnp.LOG_ARGS and loc is None:
            return {"status": "skip"}
        conj = []
        ev = loc.get("last_eigenvalue")
        if ev is not None:
            conj.append(zreal(ev) <= 4)
        for a in symnp.LOG_ARGS:
            conj.append(zreal(a) <= 4)
        vec = loc.get("last_eigenvector")
        if isinstance(vec, symnp.Arr):
            for x in vec.elems():
                conj.append(z3.And(zreal(x) >= 0, zreal(x) <= 1))
        r, m = e.check(z3.Not(z3.And(conj)))
        if r == "sat":
            return {"status": "viol", "why": "one power-iteration step leaves the invariant (estimate <= 4, vector in [0,1])", "cex": cex(m, repeats=2, seed=0)}
        if r != "unsat":
            return {"status": "inconclusive", "why": "solver unknown on the one-step invariant"}
        mm = e._ensure_model()
        return {"status": "ok", "sample": {"bound": "one step from an arbitrary vector", "graph": g.model_rows(mm) if N <= 16 else cfg.get("fixed")}}
    if side == "regular" and cfg.get("fixed"):
        # window of symbolic dead-end arcs, enumerated exhaustively by the solver; each path runs on concrete binary64 numbers
        d = cfg["d"]
        free = [a for row in g.arc for a in row if not (z3.is_true(a) or z3.is_false(a))]
        for a in free:
            e.decide(a)
        m = e._ensure_model()
        rows = g.model_rows(m)
        r, _ = e.check(z3.Or([a != z3.BoolVal(z3.is_true(m.eval(a, model_completion=True))) for a in free]) if free else z3.BoolVal(False))
        if r != "unsat":
            raise core.Inconclusive("path does not pin the arcs")
        acc_c = symnp.array(rows)
        val = L.approximate_capacity(acc_c, repeats=1)
        if acc_c.tolist() != rows:
            return {"status": "viol", "why": "approximate_capacity modified its accessor argument", "cex": {"kind": "capacity", "acc": rows, "repeats": 1, "want": "unchanged"}}
        if core.is_sym(val) or abs(float(val) - math.log2(d)) > 1e-12:
            return {"status": "viol", "why": "deterministic mode returns %r, not log2 %d, on a graph whose live vertices all have %d live successors" % (val, d, d),
                    "cex": {"kind": "capacity", "acc": rows, "repeats": 1}}
        return {"status": "ok", "sample": {"regular": d, "order": k, "dead_end_arcs": sum(1 for a in free if z3.is_true(m.eval(a, model_completion=True)))}}
    if side == "regular":
        d = cfg["d"]
        if not cfg.get("fixed"):
            live = [g.live(v) for v in range(N)]
            cons = [z3.Or(live)]
            for v in range(N):
                # exactly d LIVE successors; further arcs into dead-end vertices are allowed (they carry no weight)
                cons.append(z3.Implies(live[v], z3.Sum([z3.If(z3.And(g.arc[v][j], live[succ(v, j, k)]), 1, 0) for j in range(4)]) == d))
            e.assume(z3.And(cons))
        acc.budget = symnp.AccessBudget(6)
        try:
            r = L.approximate_capacity(acc, repeats=1)
        except Budget:
            rr, m = e.check()
            return {"status": "viol", "why": "deterministic mode does not stop after the second iteration on a %d-regular graph" % d, "cex": cex(m, repeats=1)}
        finally:
            acc.budget = None
        if d == 1:
            good = z3.BoolVal(not core.is_sym(r) and float(r) == 0.0) if not core.is_sym(r) else (zreal(r) == 0)
            if not symnp.LOG_ARGS:
                good = z3.BoolVal(False)
            else:
                good = zreal(symnp.LOG_ARGS[-1]) == 1
        else:
            if not symnp.LOG_ARGS:
                rr, m = e.check()
                return {"status": "viol", "why": "no eigenvalue estimate produced", "cex": cex(m, repeats=1)}
            good = z3.And(zreal(symnp.LOG_ARGS[-1]) == d, zreal(r) == symnp.LOG2(z3.RealVal(d)) if core.is_sym(r) else z3.BoolVal(False))
        rr, m = e.check(z3.Not(good))
        if rr == "sat":
            return {"status": "viol", "why": "deterministic mode does not return log2 %d on a %d-regular graph" % (d, d), "cex": cex(m, repeats=1)}
        if rr != "unsat":
            return {"status": "inconclusive", "why": "solver unknown"}
        mm = e._ensure_model()
        return {"status": "ok", "sample": {"regular": d, "graph": g.model_rows(mm)}}
    # early stop (bug hunting): two iterations then stop with estimate d, but a certificate shows radius <= d - 1/4
    d = cfg["d"]
    e.assume(z3.Or([a for row in g.arc for a in row]))
    acc.budget = symnp.AccessBudget(2)
    e.retry_unknown = False          # bug hunting only: no second solver configuration for undecided branches
    try:
        r = L.approximate_capacity(acc, repeats=1)
    except Budget:
        return {"status": "ok", "sample": {"early": "needs more than two iterations on this path"}}
    except core.Inconclusive as ex:
        # this side only hunts for witnesses of the known finding; when the solver gives up nothing is claimed either way
        return {"status": "ok", "sample": {"early": "bug hunt gave up on this path: %s" % ex}}
    finally:
        acc.budget = None
        e.retry_unknown = True
    if not symnp.LOG_ARGS:
        return {"status": "ok", "sample": {"early": "no estimate"}}
    est = zreal(symnp.LOG_ARGS[-1])
    xs = [z3.Real("x_%d" % v) for v in range(N)]
    cert = [est == d]
    for v in range(N):
        cert.append(xs[v] >= 1)
        cert.append(z3.Sum([z3.If(g.arc[v][j], xs[succ(v, j, k)], 0) for j in range(4)]) <= (z3.RealVal(d) - z3.Q(1, 4)) * xs[v])
    # strongly connected and aperiodic (a self-loop) so that the structural precondition has a chance to hold
    cert.append(z3.Or([g.arc[v][v % 4] if k == 1 else z3.BoolVal(False) for v in range(N)]))
    e.retry_unknown = False
    try:
        rr, m = e.check(*cert)
    finally:
        e.retry_unknown = True
    if rr == "sat":
        return {"status": "kf", "kf": "C17-KF1", "why": "deterministic mode stops after two iterations with estimate %d although the radius is at most %s" % (d, d - 0.25),
                "cex": cex(m, repeats=1, want="accuracy")}
    return {"status": "ok", "sample": {"early": "no certified early stop on this path", "d": d}}


def replay(cex, repo_dir):
    return common.run_replay(cex["kind"], cex, repo_dir)


CANARIES = [
    {"name": "later-columns-dropped", "cfg": dict(side="regular", k=1, d=3),
     "patches": {"graphized": [("                available = where(positions >= 0)\n", "                available = where(positions >= 0)\n                if len(available[0]) == 0:\n                    break\n")]}},
]

if __name__ == "__main__":
    sys.exit(common.main("checks.c17"))
