"""C13 -- vertex indices are k-mers and arcs are shift-append."""
import sys

import z3

from checks import common
from symx import core, symnp, oracles, strs
from symx.core import SymInt, zint

PID = "C13"
TITLE = "Vertex indices are k-mers and arcs are shift-append"
EXPLANATION = ("real obtain_latters / obtain_formers / number_to_dna / dna_to_number with a symbolic vertex index v in [0, 4^k) (k concrete, "
               "1..K): results compared with k-mer digit arithmetic (v = sum d_i 4^(k-1-i); successor = digits shifted left + j; predecessor = "
               "f prepended); predecessor/successor duality on two symbolic vertices; get_complete_accessor(k) loaded into a z3 select chain "
               "and compared for symbolic v; call sites inside dsw must pass the caller's observed length (dynamic taint on the real generator)")
STUBS = ["Monitor.__call__ has an empty body"]
ASSUMPTIONS = ["k itself is never symbolic (4^k is a size); every k in the stated range is a separate exploration"]
BUDGET_S = {"quick": 900, "thorough": 1500}


def make_loader(cfg):
    return {"_key": "real"}


def jobs(tier):
    J = []
    K = 8 if tier == "quick" else 16
    for k in range(1, K + 1):
        J.append(dict(side="arith", k=k))
    for k in range(1, (5 if tier == "quick" else 8) + 1):
        J.append(dict(side="str", k=k))
    for k in range(1, (4 if tier == "quick" else 6) + 1):
        J.append(dict(side="complete", k=k))
    for k in (1, 2, 3):
        J.append(dict(side="callsites", k=k))
    for k in range(1, (4 if tier == "quick" else 5) + 1):
        J.append(dict(side="convert", k=k))
    return J


def bounds(tier):
    js = jobs(tier)
    return {"successor/predecessor arithmetic": "k = 1..%d, all 4^k vertices (symbolic)" % max(j["k"] for j in js if j["side"] == "arith"),
            "index<->k-mer strings": "k = 1..%d" % max(j["k"] for j in js if j["side"] == "str"),
            "complete accessor": "k = 1..%d" % max(j["k"] for j in js if j["side"] == "complete"), "outside": "larger k"}


def succ_(v, j, k):
    return (v * 4 + j) % (4 ** k)


def digits_of(e, k, name="d"):
    ds = [z3.Int("%s_%d" % (name, i)) for i in range(k)]
    for d in ds:
        e.assume(z3.And(d >= 0, d <= 3))
    v = z3.Sum([ds[i] * 4 ** (k - 1 - i) for i in range(k)])
    return ds, v


def body(e, L, cfg):
    k = cfg["k"]
    N = 4 ** k
    if cfg["side"] == "callsites":
        return body_callsites(e, L, cfg)
    if cfg["side"] == "convert":
        return body_convert(e, L, cfg)
    ds, vexpr = digits_of(e, k)
    v = z3.Int("v")
    e.assume(z3.And(v >= 0, v < N))
    e.assume(v == vexpr)

    def cex(m, **kw):
        c = {"kind": "succ", "k": k, "v": m.eval(v, model_completion=True).as_long(), "warm": cfg["side"] == "arith"}
        c.update(kw)
        return c
    if cfg["side"] == "arith":
        # history: the same vertex numbers asked at OTHER observed lengths first (a memo keyed by the vertex alone is then stale)
        for kk in (k + 1, max(1, k - 1)):
            for vv in range(min(4 ** kk, N, 64)):
                try:
                    L.obtain_latters(vv, kk)
                    L.obtain_formers(vv, kk)
                except Exception:
                    pass
        try:
            la = L.obtain_latters(SymInt(v), k)
            fo = L.obtain_formers(SymInt(v), k)
        except core.Abort:
            raise
        except Exception as ex:
            r, m = e.check()
            return {"status": "viol", "why": "raised %s: %s" % (type(ex).__name__, ex), "cex": cex(m)}
        if len(la) != 4 or len(fo) != 4:
            r, m = e.check()
            return {"status": "viol", "why": "lists of length %d / %d" % (len(la), len(fo)), "cex": cex(m)}
        conj = []
        for j in range(4):
            conj.append(zint(la[j]) == z3.Sum([ds[i] * 4 ** (k - i) for i in range(1, k)] + [z3.IntVal(j)]))
            conj.append(zint(fo[j]) == z3.Sum([ds[i] * 4 ** (k - 2 - i) for i in range(0, k - 1)] + [z3.IntVal(j * 4 ** (k - 1))]))
        r, m = e.check(z3.Not(z3.And(conj)))
        if r == "sat":
            return {"status": "viol", "why": "successor / predecessor list differs from k-mer arithmetic", "cex": cex(m)}
        if r != "unsat":
            return {"status": "inconclusive", "why": "solver unknown"}
        # duality on a second symbolic vertex
        u = z3.Int("u")
        e.assume(z3.And(u >= 0, u < N))
        fu = L.obtain_latters(SymInt(u), k)
        a = z3.Or([zint(x) == u for x in fo])
        b = z3.Or([zint(x) == v for x in fu])
        r, m = e.check(a != b)
        if r == "sat":
            return {"status": "viol", "why": "predecessor/successor duality broken", "cex": cex(m, u=m.eval(u, model_completion=True).as_long())}
        if r != "unsat":
            return {"status": "inconclusive", "why": "solver unknown"}
        mm = e._ensure_model()
        return {"status": "ok", "sample": {"k": k, "v": mm.eval(v, model_completion=True).as_long(), "checked": "latters, formers, duality"}}
    if cfg["side"] == "str":
        try:
            s = L.number_to_dna(SymInt(v), k)
        except core.Abort:
            raise
        except Exception as ex:
            r, m = e.check()
            return {"status": "viol", "why": "number_to_dna raised %s: %s" % (type(ex).__name__, ex), "cex": cex(m)}
        codes = strs.codes_of(s)
        if codes is None or len(codes) != k:
            r, m = e.check()
            return {"status": "viol", "why": "number_to_dna returned %r" % (s,), "cex": cex(m)}
        good = z3.And([codes[i] == oracles.code_of_index(ds[i]) for i in range(k)])
        r, m = e.check(z3.Not(good))
        if r == "sat":
            return {"status": "viol", "why": "number_to_dna differs from the base-4 rendering", "cex": cex(m)}
        if r != "unsat":
            return {"status": "inconclusive", "why": "solver unknown"}
        # and back, from an independent symbolic k-mer string
        t, tcodes, cons = oracles.sym_string(k, "t")
        e.assume(cons)
        e.assume(z3.And([tcodes[i] == oracles.code_of_index(ds[i]) for i in range(k)]))
        try:
            w = L.dna_to_number(t, is_string=False)
        except core.Abort:
            raise
        except Exception as ex:
            r, m = e.check()
            return {"status": "viol", "why": "dna_to_number raised %s: %s" % (type(ex).__name__, ex), "cex": cex(m)}
        r, m = e.check(zint(w) != v)
        if r == "sat":
            return {"status": "viol", "why": "dna_to_number differs from the base-4 value", "cex": cex(m)}
        if r != "unsat":
            return {"status": "inconclusive", "why": "solver unknown"}
        mm = e._ensure_model()
        return {"status": "ok", "sample": {"k": k, "v": mm.eval(v, model_completion=True).as_long(), "kmer": oracles.model_string(mm, tcodes)}}
    # complete accessor
    acc = L.get_complete_accessor(k)
    if acc.shape != (N, 4):
        return {"status": "viol", "why": "complete accessor of shape %s" % (acc.shape,), "cex": {"kind": "succ", "k": k, "v": 0, "complete": True}}
    row = acc[SymInt(v)]
    es = row.elems()
    good = z3.And([zint(es[j]) == z3.Sum([ds[i] * 4 ** (k - i) for i in range(1, k)] + [z3.IntVal(j)]) for j in range(4)])
    r, m = e.check(z3.Not(good))
    if r == "sat":
        return {"status": "viol", "why": "complete accessor does not hold the j-th successor in column j", "cex": cex(m, complete=True)}
    if r != "unsat":
        return {"status": "inconclusive", "why": "solver unknown"}
    # column j holds the successor ending in nucleotide j whatever the order inside a latter-map list
    lm = {u: [succ_(u, j, k) for j in (3, 1, 2, 0)] for u in range(N)}
    back = L.latter_map_to_accessor(lm, k)
    es2 = back[SymInt(v)].elems()
    good2 = z3.And([zint(es2[j]) == z3.Sum([ds[i] * 4 ** (k - i) for i in range(1, k)] + [z3.IntVal(j)]) for j in range(4)])
    r, m = e.check(z3.Not(good2))
    if r == "sat":
        return {"status": "viol", "why": "latter map with unordered successor lists converts to wrong columns", "cex": cex(m, complete=True, unordered_map=True)}
    # a caller trimming the graph it was given must not change what the next request returns (history)
    for i in range(N):
        acc[i] = -1
    acc2 = L.get_complete_accessor(k)
    es = acc2[SymInt(v)].elems()
    good = z3.And([zint(es[j]) == z3.Sum([ds[i] * 4 ** (k - i) for i in range(1, k)] + [z3.IntVal(j)]) for j in range(4)])
    r, m = e.check(z3.Not(good))
    if r == "sat":
        return {"status": "viol", "why": "a second request for the complete accessor is affected by writes to the first result",
                "cex": cex(m, complete=True, mutate_between=True)}
    if r != "unsat":
        return {"status": "inconclusive", "why": "solver unknown"}
    mm = e._ensure_model()
    return {"status": "ok", "sample": {"k": k, "complete_accessor_rows": N}}


def body_convert(e, L, cfg):
    """every graph the library converts holds in column j either -1 or the j-th successor: the complete graph and a sparse sub-graph
    of order k through accessor -> matrix -> accessor and accessor -> latter map -> accessor (concrete inputs; the subject is the
    observed length the conversions derive from the size)."""
    from checks import gen
    k = cfg["k"]
    N = 4 ** k
    full = [[succ_(u, j, k) for j in range(4)] for u in range(N)]
    sparse = [[(x if (u * 7 + j * 3) % 5 < 2 else -1) for j, x in enumerate(r)] for u, r in enumerate(full)]
    for rows in (full, sparse):
        cex = {"kind": "repr", "acc": rows, "roots": [0], "depth": 0, "illegal": None}
        try:
            mx = L.accessor_to_adjacency_matrix(symnp.array(rows))
            back = gen.concrete_rows(L.adjacency_matrix_to_accessor(mx))
            lm = L.accessor_to_latter_map(symnp.array(rows))
            back2 = gen.concrete_rows(L.latter_map_to_accessor(lm, k))
        except core.Abort:
            raise
        except core.Inconclusive:
            raise
        except Exception as ex:
            return {"status": "viol", "why": "conversion of an order-%d graph raised %s: %s" % (k, type(ex).__name__, ex), "cex": cex}
        for name, b in (("matrix", back), ("latter map", back2)):
            bad = [(u, j) for u in range(N) for j in range(4) if b[u][j] not in (-1, full[u][j])]
            if bad or b != rows:
                return {"status": "viol", "why": "accessor -> %s -> accessor at order %d: %s" % (name, k, ("column %s holds neither -1 nor the successor" % (bad[0],)) if bad else "differs from the input"), "cex": cex}
    return {"status": "ok", "sample": {"k": k, "converted": "complete graph and a sparse sub-graph, both routes"}}


def body_callsites(e, L, cfg):
    """every obtain_formers / obtain_latters call made by the generator passes the caller's observed length."""
    from checks import gen
    k = cfg["k"]
    calls = []
    ns = L.ns["spiderweb"]
    saved = {}
    for name in ("obtain_formers", "obtain_latters"):
        saved[name] = ns[name]

        def mk(f, name=name):
            def w(*a, **kw):
                ol = kw.get("observed_length", a[1] if len(a) > 1 else None)
                calls.append((name, ol))
                return f(*a, **kw)
            return w
        ns[name] = mk(saved[name])
    try:
        symnp.WHERE_POLICY = "concrete"
        masks = [[1] * 4 ** k, [1] + [0] * (4 ** k - 1), gen.gc_mask(k) if k % 2 == 0 else [1, 1] + [0] * (4 ** k - 2)]
        for mask in masks:
            for t in (1, 2):
                try:
                    L.connect_coding_graph(k, symnp.array(mask), t)
                except ValueError:
                    pass
                try:
                    L.connect_valid_graph(k, symnp.array(mask))
                except ValueError:
                    pass
    finally:
        symnp.WHERE_POLICY = "symlen"
        for name in saved:
            ns[name] = saved[name]
    bad = [c for c in calls if c[1] != k]
    if bad:
        return {"status": "viol", "why": "call %s(..., observed_length=%r) inside the generator at observed length %d" % (bad[0][0], bad[0][1], k),
                "cex": {"kind": "gen", "k": k, "t": 1, "mask": [1] + [0] * (4 ** k - 1), "want": "exact"}}
    return {"status": "ok", "sample": {"k": k, "calls_checked": len(calls)}}


def replay(cex, repo_dir):
    return common.run_replay(cex["kind"], cex, repo_dir)


CANARIES = [
    {"name": "formers-range-off-by-one", "cfg": dict(side="arith", k=2),
     "patches": {"graphized": [("    for former_value in range(len(nucleotides)):\n        former = current // len(nucleotides) + former_value * int(len(nucleotides) ** (observed_length - 1))",
                                "    for former_value in range(len(nucleotides)):\n        former = current // len(nucleotides) + former_value * int(len(nucleotides) ** (observed_length - 1)) - (1 if current == len(nucleotides) ** observed_length - 1 and former_value == 3 else 0)")]}},
]

if __name__ == "__main__":
    sys.exit(common.main("checks.c13"))
