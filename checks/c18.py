"""C18 -- shuffle tables are reproducible per-vertex permutations; the induced digit->arc map is a bijection."""
import sys

import z3

from checks import coding, common
from symx import core, symnp, oracles, strs, stubs
from symx.core import SymInt, zint

PID = "C18"
TITLE = "Shuffle tables are reproducible per-vertex permutations"
EXPLANATION = ("(table) real create_random_shuffles(k, seed) with numpy.random replaced by a nondeterministic stub (shuffle = arbitrary "
               "in-place permutation, every call logged), seed symbolic: 4^k rows, every row provably a permutation of 0..3, and the RNG call "
               "log is exactly seed(s), 4^k x shuffle(row), seed(None) whatever the seed value and the verbose flag -- with a deterministic RNG "
               "that is reproducibility.  (bij) real encode, twice on one path, with a symbolic table on all arc subsets of the order-1 graph: "
               "the first emitted arcs are live and coincide exactly when the first digits coincide")
STUBS = ["numpy.random.seed / shuffle: contract stub (arbitrary permutation in place; calls logged)", stubs.STUB_NOTE + " (bij side)"]
ASSUMPTIONS = ["numpy's Mersenne Twister is deterministic for a given seed (trusted; exercised concretely in the replay oracle)"]
BUDGET_S = {"quick": 900, "thorough": 1500}


def make_loader(cfg):
    if cfg["side"] == "probe":
        return {"random_impl_factory": symnp.RealRandom, "quiet_print": True}
    if cfg["side"] == "table":
        return {"random_impl_factory": symnp.SymRandom, "real_monitor": bool(cfg.get("verbose")), "quiet_print": True}
    return coding.make_loader(cfg)


def jobs(tier):
    J = []
    for k in ((1, 2, 3) if tier == "quick" else (1, 2, 3, 4)):
        J.append(dict(side="table", k=k, verbose=False))
    # orders 5 and 6 (1024 / 4096 rows): concrete probes with numpy's real generator (the symbolic RNG stub does not scale to them)
    for k in ((6,) if tier == "quick" else (5, 6)):
        J.append(dict(side="probe", k=k))
    J.append(dict(side="table", k=1, verbose=True))
    J.append(dict(side="table", k=2, verbose=True))
    for fast in (False, True):
        J.append(dict(side="bij", k=1, L=2, fast=fast, table=True, vt=0, max_steps=2))
    if tier == "thorough":
        J.append(dict(side="bij", k=1, L=3, fast=False, table=True, vt=0, max_steps=3))
        J.append(dict(side="bij", k=2, L=2, fast=True, table=True, vt=0, max_steps=2))
    return J


def bounds(tier):
    js = jobs(tier)
    return {"table": "k <= %d, every seed value (symbolic), verbose on/off; concrete probes at k = %s (real generator, seeds 0 and 2021)" % (max(j["k"] for j in js if j["side"] == "table"), [j["k"] for j in js if j["side"] == "probe"]),
            "bijection": "all 24 permutations x all live-arc patterns x all digits at every vertex of the order-1 graph (order-2 in thorough), both modes",
            "outside": "numpy's generator itself"}


def body(e, L, cfg):
    if cfg["side"] == "bij":
        return body_bij(e, L, cfg)
    if cfg["side"] == "probe":
        return body_probe(e, L, cfg)
    k = cfg["k"]
    N = 4 ** k
    seed = z3.Int("seed")
    e.assume(z3.And(seed >= 0, seed < 2 ** 32))
    rnd = L.numpy.random
    rnd.calls[:] = []

    def cex(m):
        return {"kind": "shuffles", "k": k, "seed": m.eval(seed, model_completion=True).as_long()}
    import numpy as _real_numpy
    po = _real_numpy.get_printoptions()
    try:
        t = L.create_random_shuffles(k, SymInt(seed), bool(cfg.get("verbose")))
    except core.Abort:
        raise
    except Exception as ex:
        r, m = e.check()
        if r != "sat":
            return {"status": "skip"}
        return {"status": "viol", "why": "create_random_shuffles raised %s: %s" % (type(ex).__name__, ex), "cex": cex(m)}
    finally:
        po2 = _real_numpy.get_printoptions()
        _real_numpy.set_printoptions(**po)
    if po2 != po:
        # process-wide state other than the random generator: numpy's print options
        r, m = e.check()
        return {"status": "viol", "why": "the call changed numpy's print options: %s" % sorted(k_ for k_ in po if po[k_] != po2.get(k_)), "cex": dict(cex(m), verbose=bool(cfg.get("verbose")))}
    if not isinstance(t, symnp.Arr) or t.shape != (N, 4):
        r, m = e.check()
        return {"status": "viol", "why": "table of shape %s" % (getattr(t, "shape", None),), "cex": cex(m)}
    es = t.elems()
    conj = []
    for v in range(N):
        row = [zint(x) for x in es[4 * v:4 * v + 4]]
        conj.append(z3.Distinct(*row))
        conj += [z3.And(x >= 0, x <= 3) for x in row]
    r, m = e.check(z3.Not(z3.And(conj)))
    if r == "sat":
        return {"status": "viol", "why": "a row is not a permutation of 0..3", "cex": cex(m)}
    if r != "unsat":
        return {"status": "inconclusive", "why": "solver unknown"}
    # the RNG call log: seed(s), N shuffles of 4-element row views of the table, seed(None)
    calls = rnd.calls
    shape_ok = (len(calls) == N + 2 and calls[0][0] == "seed" and calls[-1] == ("seed", None)
                and all(c[0] == "shuffle" and c[1] == 4 for c in calls[1:-1]))
    if shape_ok:
        s0 = calls[0][1]
        if s0 is None:
            shape_ok = False
        else:
            r, m = e.check(zint(s0) != seed)
            if r == "sat":
                return {"status": "viol", "why": "the generator is seeded with something else than the given seed", "cex": cex(m)}
    if not shape_ok:
        r, m = e.check()
        return {"status": "viol", "why": "RNG call sequence is %s, expected seed(s), %d x shuffle(row), seed(None)"
                % ([c[0] if c[0] != "seed" else ("seed", "None" if c[1] is None else "s") for c in calls][:8], N), "cex": cex(m)}
    # history: a second call must not rewrite the table handed out by the first one, and must behave in the same way
    first = [zint(x) for x in es]
    ncalls = len(calls)
    keep = t.copy()
    try:
        t2 = L.create_random_shuffles(k, SymInt(seed), bool(cfg.get("verbose")))
    except core.Abort:
        raise
    except Exception as ex:
        r, m = e.check()
        return {"status": "viol", "why": "second call raised %s" % type(ex).__name__, "cex": cex(m)}
    now = [zint(x) for x in t.elems()]
    r, m = e.check(z3.Not(z3.And([a == b for a, b in zip(first, now)])))
    if r == "sat":
        return {"status": "viol", "why": "the table returned by the first call was rewritten by the second call", "cex": cex(m)}
    calls2 = rnd.calls[ncalls:]
    if len(calls2) != N + 2 or calls2[0][0] != "seed" or calls2[-1] != ("seed", None) or t2 is t or t2.buf is t.buf:
        r, m = e.check()
        return {"status": "viol", "why": "second call does not repeat the seed / shuffle / reseed sequence on a table of its own", "cex": cex(m)}
    mm = e._ensure_model()
    return {"status": "ok", "sample": {"k": k, "rows": N, "rng_calls": len(calls), "seed": mm.eval(seed, model_completion=True).as_long()}}


def body_probe(e, L, cfg):
    """concrete probe (bug hunting): real numpy generator, orders beyond the symbolic bound -- one row per vertex, every row a
    permutation, the same seed gives the same table (two seeds, two calls each), the RNG call log has the documented shape"""
    k = cfg["k"]
    N = 4 ** k
    rnd = L.numpy.random
    for seed in (0, 2021):
        cex = {"kind": "shuffles", "k": k, "seed": seed}
        tabs = []
        for _ in range(2):
            rnd.calls[:] = []
            try:
                t = L.create_random_shuffles(k, seed)
            except core.Abort:
                raise
            except core.Inconclusive:
                raise
            except Exception as ex:
                return {"status": "viol", "why": "create_random_shuffles(%d, %d) raised %s" % (k, seed, type(ex).__name__), "cex": cex}
            rows = gen_rows(t)
            if len(rows) != N or any(sorted(r) != [0, 1, 2, 3] for r in rows):
                return {"status": "viol", "why": "order %d: table is not one permutation of 0..3 per vertex" % k, "cex": cex}
            calls = rnd.calls
            if not (len(calls) == N + 2 and calls[0] == ("seed", seed) and calls[-1] == ("seed", None) and all(c[0] == "shuffle" for c in calls[1:-1])):
                return {"status": "viol", "why": "order %d: RNG call sequence %s..., expected seed(s), %d x shuffle(row), seed(None)" % (k, calls[:3], N), "cex": cex}
            tabs.append(rows)
        if tabs[0] != tabs[1]:
            return {"status": "viol", "why": "order %d: the same seed %d gives two different tables" % (k, seed), "cex": cex}
    return {"status": "ok", "sample": {"probe": "order %d, seeds 0 and 2021, two calls each" % k}}


def gen_rows(t):
    a = t.fix_len() if hasattr(t, "fix_len") else t
    es = [core.concrete_int(x) if core.is_sym(x) else int(x) for x in a.elems()]
    return [es[i:i + 4] for i in range(0, len(es), 4)]


def body_bij(e, L, cfg):
    g, bs, start, tab = coding.universe(e, cfg)
    bs2 = oracles.bits(cfg["L"], "w")
    e.assume(oracles.bits_constraints(bs2))
    fast = bool(cfg.get("fast"))
    out = []
    for b in (bs, bs2):
        kind, val = coding.run_encode(e, L, cfg, g, b, start, tab)
        if kind != "ok":
            return {"status": "skip", "why": str(val)}
        out.append(strs.codes_of(val[0]))
        if b is bs:
            # the real decode inverts the digit map (same graph, start, table, mode)
            try:
                back = L.decode(val[0], cfg["L"], val[2], SymInt(start), is_faster=fast, shuffles=val[4])
                bt = z3.And([zint(x) == y for x, y in zip(back.fix_len().elems(), bs)])
            except core.Abort:
                raise
            except Exception as ex:
                bt = z3.BoolVal(False)
            r, m = e.check(z3.Not(bt))
            if r == "sat":
                c = coding.cex_of(m, g, bs, start, tab, cfg, "roundtrip")
                return {"status": "viol", "why": "decode does not invert the digit map induced by the table", "cex": c}
    c1, c2 = out
    if not c1 or not c2:
        return {"status": "skip", "why": "empty strand"}
    deg = g.sel(start, lambda u: g.deg(u))
    if fast:
        d1 = z3.If(deg == 4, bs[0] * 2 + bs[1], z3.If(deg == 2, bs[0], 0))
        d2 = z3.If(deg == 4, bs2[0] * 2 + bs2[1], z3.If(deg == 2, bs2[0], 0))
    else:
        v1, v2 = oracles.bits_value(bs), oracles.bits_value(bs2)
        d1 = z3.If(deg == 2, v1 % 2, z3.If(deg == 3, v1 % 3, z3.If(deg == 4, v1 % 4, 0)))
        d2 = z3.If(deg == 2, v2 % 2, z3.If(deg == 3, v2 % 3, z3.If(deg == 4, v2 % 4, 0)))
    j1, j2 = oracles.nuc_index(c1[0]), oracles.nuc_index(c2[0])
    live1 = g.sel(start, lambda u: z3.Or([z3.And(j1 == j, g.arc[u][j]) for j in range(4)]))
    live2 = g.sel(start, lambda u: z3.Or([z3.And(j2 == j, g.arc[u][j]) for j in range(4)]))
    good = z3.And(live1, live2, (j1 == j2) == (d1 == d2))
    r, m = e.check(z3.Not(good))
    if r == "sat":
        c = coding.cex_of(m, g, bs, start, tab, cfg, "all")
        c["bits2"] = [m.eval(b, model_completion=True).as_long() for b in bs2]
        c["kind"] = "bijection"
        return {"status": "viol", "why": "digit -> arc map is not a bijection onto the live arcs", "cex": c}
    if r != "unsat":
        return {"status": "inconclusive", "why": "solver unknown"}
    return {"status": "ok", "sample": coding.sample_of(e, g, bs, start, tab, cfg, c1)}


def replay(cex, repo_dir):
    if cex.get("kind") == "bijection":
        ok, d = common.run_replay("bijection", cex, repo_dir)
        if ok:
            return ok, d
        for bits in (cex["bits"], cex["bits2"]):           # a strand that leaves the graph / differs from the scheme also refutes it
            ok2, d2 = common.run_replay("coding", dict(cex, kind="coding", check="all", bits=bits), repo_dir)
            if ok2:
                return ok2, d2
        return ok, d
    return common.run_replay(cex["kind"], cex, repo_dir)


CANARIES = [
    {"name": "seed-zero-ignored", "cfg": dict(side="table", k=1, verbose=False),
     "patches": {"spiderweb": [("    random.seed(random_seed)\n\n    monitor = Monitor()", "    if random_seed:\n        random.seed(random_seed)\n\n    monitor = Monitor()")]}},
    {"name": "dead-arc-sentinel", "cfg": dict(side="bij", k=1, L=2, fast=False, table=True, vt=0, max_steps=2),
     "patches": {"spiderweb": [("                if shuffles is not None:  # shuffle remainder based on the inputted shuffles.\n                    remainder = argsort(shuffles[vertex_index, used_indices])[remainder]\n\n                value = used_indices[remainder]\n\n                if need_path:\n                    record_path.append([vertex_index, 1])",
                                "                if shuffles is not None:  # shuffle remainder based on the inputted shuffles.\n                    remainder = argsort(shuffles[vertex_index, used_indices])[len(used_indices) - 1 - remainder] if len(used_indices) == 3 else argsort(shuffles[vertex_index, used_indices])[remainder]\n                    remainder = min([remainder, 1]) if len(used_indices) == 3 else remainder\n\n                value = used_indices[remainder]\n\n                if need_path:\n                    record_path.append([vertex_index, 1])")]}},
]

if __name__ == "__main__":
    sys.exit(common.main("checks.c18"))
