"""checks.common -- parallel exploration driver, counterexample replay, known findings, evidence.

A check module (checks/cNN.py) provides:
  PID, TITLE, ASSUMPTIONS (list of str), STUBS (list of str)
  jobs(tier)            -> list of picklable cfg dicts (one symbolic exploration each)
  make_loader(cfg)      -> kwargs for symx.loader.load (stubs, random stub, ...) ; optional
  body(eng, L, cfg)     -> record dict: {"status": ok|skip|viol|kf|budget, "why":..., "cex":..., "sample":...}
  replay(cex, repo_dir) -> (reproduced: bool, detail: str)   concrete replay on the real code in /venv
  CANARIES              -> list of {"name", "patches": {mod: [(old, new)]}, "cfg": {...}}
Exit codes: 0 held (maybe KNOWN-FINDING lines), 1 replayed violation, 2 inconclusive, 3 harness error.
"""
import hashlib
import importlib
import json
import multiprocessing as mp
import os
import shutil
import subprocess
import sys
import tempfile
import time
import traceback

VERIF = os.path.dirname(os.path.dirname(os.path.abspath(__file__)))
if VERIF not in sys.path:
    sys.path.insert(0, VERIF)

REPO = os.environ.get("VERIF_REPO", "/repo")
VENV_PY = os.environ.get("VERIF_VENV_PY", "/venv/bin/python")
NPROC = int(os.environ.get("VERIF_NPROC", "16"))

from symx import core, loader, symnp  # noqa: E402

_LOADED = {}


def _get_loaded(modname, cfg, patches=None):
    mod = importlib.import_module(modname)
    kw = mod.make_loader(cfg) if hasattr(mod, "make_loader") else {}
    key = (modname, json.dumps(kw.get("_key", sorted(k for k in kw)), default=str), json.dumps(patches, sort_keys=True))
    kw = {k: v for k, v in kw.items() if k != "_key"}
    if patches:
        kw["patches"] = {m: [tuple(p) for p in ps] for m, ps in patches.items()}
    # a fresh random stub per load is needed (it keeps a call log): loaders with random_impl are not cached
    if "random_impl_factory" in kw:
        kw["random_impl"] = kw.pop("random_impl_factory")()
        return mod, loader.load(**kw)
    # a fresh copy of the repository's modules per work slice: module-level state written by the code under test (caches ...)
    # must not leak from one exploration into another (loading takes a few tens of milliseconds)
    return mod, loader.load(**kw)


def _worker(args):
    modname, cfg, roots, max_paths, max_seconds, patches, timeout_ms = args
    t0 = time.time()
    sys.setrecursionlimit(20000)
    try:
        mod, L = _get_loaded(modname, cfg, patches)
        eng = core.Engine(timeout_ms=timeout_ms)

        def fn(e):
            try:
                return mod.body(e, L, cfg)
            except core.Inconclusive as ex:
                return {"status": "inconclusive", "why": "Inconclusive: %s" % ex}
            except core.Budget as ex:
                return {"status": "budget", "why": str(ex)}
        results, left = eng.explore(fn, roots=roots, max_paths=max_paths, max_seconds=max_seconds)
        return {"ok": True, "records": results, "left": left, "stats": eng.stats(), "entered": dict(L.entered),
                "delegated": dict(symnp.DELEGATED), "wall": time.time() - t0}
    except core.Inconclusive as ex:
        return {"ok": True, "records": [{"status": "inconclusive", "why": str(ex)}], "left": [], "stats": {},
                "entered": {}, "delegated": {}, "wall": time.time() - t0}
    except BaseException:
        return {"ok": False, "error": traceback.format_exc(), "wall": time.time() - t0}


class Result(object):
    def __init__(self):
        self.records = []
        self.paths = 0
        self.by_status = {}
        self.queries = 0
        self.solver_s = 0.0
        self.forks = 0
        self.max_path_len = 0
        self.entered = {}
        self.delegated = {}
        self.open_prefixes = 0
        self.errors = []
        self.samples = []
        self.viol = []
        self.kf = []
        self.inconclusive = []
        self.cpu_s = 0.0
        self.per_job = {}
        self.incomplete_jobs = []


def explore_jobs(modname, cfgs, patches=None, deadline=None, stop_on_violation=True, slice_paths=40, slice_seconds=6.0,
                 timeout_ms=120000, nproc=None, on_violation=None):
    """explore every cfg to exhaustion (or until deadline / first confirmed violation)."""
    res = Result()
    nproc = nproc or NPROC
    ctx = mp.get_context("fork")
    pool = ctx.Pool(nproc, maxtasksperchild=60)
    pending = [(i, [[]]) for i in range(len(cfgs))]
    pending.reverse()
    inflight = []
    stop = False
    try:
        while (pending or inflight) and not stop:
            while pending and len(inflight) < nproc * 2:
                ji, roots = pending.pop()
                ar = pool.apply_async(_worker, ((modname, cfgs[ji], roots, slice_paths, slice_seconds, patches, timeout_ms),))
                inflight.append((ji, ar))
            time.sleep(0.01)
            still = []
            for ji, ar in inflight:
                if not ar.ready():
                    still.append((ji, ar))
                    continue
                out = ar.get()
                res.cpu_s += out.get("wall", 0.0)
                if not out["ok"]:
                    res.errors.append(out["error"])
                    stop = True
                    continue
                st = out["stats"]
                res.queries += st.get("queries", 0)
                res.solver_s += st.get("solver_s", 0.0)
                res.forks += st.get("forks", 0)
                res.max_path_len = max(res.max_path_len, st.get("max_path_len", 0))
                for k, v in out["entered"].items():
                    res.entered[k] = res.entered.get(k, 0) + v
                for k, v in out["delegated"].items():
                    res.delegated[k] = max(res.delegated.get(k, 0), v)
                pj = res.per_job.setdefault(ji, {"paths": 0, "cpu_s": 0.0})
                pj["cpu_s"] = round(pj["cpu_s"] + out.get("wall", 0.0), 1)
                for r in out["records"]:
                    if r is None:
                        r = {"status": "ok"}
                    res.paths += 1
                    pj["paths"] += 1
                    s = r.get("status", "ok")
                    res.by_status[s] = res.by_status.get(s, 0) + 1
                    if "sample" in r and len(res.samples) < 6:
                        res.samples.append(r["sample"])
                    if s == "viol":
                        r["cfg"] = cfgs[ji]
                        res.viol.append(r)
                        if on_violation is not None and on_violation(r) and stop_on_violation:
                            stop = True
                    elif s == "kf":
                        r["cfg"] = cfgs[ji]
                        res.kf.append(r)
                    elif s == "inconclusive":
                        r["cfg"] = cfgs[ji]
                        res.inconclusive.append(r)
                for p in out["left"]:
                    pending.append((ji, [p]))
            inflight = still
            if deadline is not None and time.time() > deadline:
                break
    finally:
        res.open_prefixes = len(pending) + len(inflight)
        res.incomplete_jobs = sorted(set([ji for ji, _ in pending] + [ji for ji, _ in inflight]))
        pool.terminate()
        pool.join()
    return res


# ------------------------------------------------------------------------------ replay
def run_replay(kind, payload, repo_dir=None, timeout=120):
    """run symx/replay_runner.py in a fresh /venv python against the real code; returns (bool, detail)."""
    runner = os.path.join(VERIF, "symx", "replay_runner.py")
    env = dict(os.environ)
    env["PYTHONPATH"] = (repo_dir or REPO)
    env.pop("PYTHONSTARTUP", None)
    data = json.dumps({"kind": kind, "payload": payload})
    try:
        p = subprocess.run([VENV_PY, runner], input=data, capture_output=True, text=True, timeout=timeout, env=env,
                           cwd=(repo_dir or REPO))
    except subprocess.TimeoutExpired:
        return None, "replay timed out after %ds" % timeout
    last = [ln for ln in p.stdout.strip().splitlines() if ln.startswith("{")]
    if not last:
        return None, "replay runner gave no verdict: rc=%s stdout=%r stderr=%r" % (p.returncode, p.stdout[-400:], p.stderr[-800:])
    out = json.loads(last[-1])
    return bool(out.get("violated")), out.get("detail", "")


def write_replay_file(pid, kind, payload, detail):
    d = os.path.join(VERIF, "replays")
    os.makedirs(d, exist_ok=True)
    blob = json.dumps({"property": pid, "kind": kind, "payload": payload, "detail": detail,
                       "how_to_replay": "echo '<this file>' | PYTHONPATH=/repo /venv/bin/python /verif/symx/replay_runner.py --file <this file>"},
                      indent=1, sort_keys=True, default=str)
    h = hashlib.sha1(blob.encode()).hexdigest()[:10]
    path = os.path.join(d, "%s-%s.json" % (pid, h))
    with open(path, "w") as f:
        f.write(blob)
    return path


def patched_repo_copy(patches):
    """temporary copy of the dsw package with textual patches applied (for canary replays)."""
    d = tempfile.mkdtemp(prefix="verif-canary-")
    shutil.copytree(os.path.join(REPO, "dsw"), os.path.join(d, "dsw"))
    for mod, ps in patches.items():
        p = os.path.join(d, "dsw", mod + ".py")
        s = open(p).read()
        for old, new in ps:
            if s.count(old) != 1:
                shutil.rmtree(d, ignore_errors=True)
                raise RuntimeError("canary patch does not apply uniquely: %s %r" % (mod, old))
            s = s.replace(old, new)
        open(p, "w").write(s)
    return d


# ------------------------------------------------------------------------------ known findings
def load_known_findings(pid):
    p = os.path.join(VERIF, "known_findings.json")
    if not os.path.exists(p):
        return []
    data = json.load(open(p))
    return [f for f in data.get("findings", []) if f.get("property") == pid and f.get("status", "open") == "open"]


# ------------------------------------------------------------------------------ main driver
def main(modname):
    mod = importlib.import_module(modname)
    pid = mod.PID
    tier = os.environ.get("VERIF_TIER", "quick")
    if len(sys.argv) > 1 and sys.argv[1] in ("quick", "thorough"):
        tier = sys.argv[1]
    seed = int(os.environ.get("VERIF_SEED", "0") or 0)
    t0 = time.time()
    budget_s = float(os.environ.get("VERIF_BUDGET_S", "0") or 0) or (mod.BUDGET_S[tier] if hasattr(mod, "BUDGET_S") else (900 if tier == "quick" else 7200))
    deadline = t0 + budget_s
    out = {"harness_error": None}
    kfs = load_known_findings(pid)
    kf_ids = set(f["id"] for f in kfs)

    confirmed = []
    not_reproduced = []

    def on_violation(r):
        ok, detail = mod.replay(r["cex"], None)
        r["replay_detail"] = detail
        if ok:
            path = write_replay_file(pid, r["cex"].get("kind", "cex"), r["cex"], detail)
            r["replay_path"] = path
            confirmed.append(r)
            return True
        not_reproduced.append(r)
        return len(not_reproduced) >= 8   # keep looking for a reproducible one, but not forever

    # 1. canaries (vacuity / reachability guard): each must be violated and replay on the patched copy
    canary_log = []
    canaries = getattr(mod, "CANARIES", [])
    if tier == "quick":
        canaries = [c for c in canaries if c.get("quick", True)]
    for c in canaries:
        tc = time.time()
        hits = []
        applicable = all(loader.read_source(m).count(old) == 1 for m, ps in c["patches"].items() for old, _new in ps)
        if not applicable:
            # the source lines the seeded fault targets have changed: the canary says nothing about this tree
            canary_log.append({"name": c["name"], "found": None, "replayed": None, "inapplicable": True})
            continue

        def on_canary(r, c=c):
            hits.append(r)
            return True
        cres = explore_jobs(modname, [c["cfg"]], patches=c["patches"], deadline=deadline, on_violation=on_canary)
        entry = {"name": c["name"], "found": bool(hits), "replayed": False, "paths": cres.paths, "wall_s": round(time.time() - tc, 1)}
        if cres.errors:
            entry["error"] = cres.errors[0][-800:]
        if hits:
            d = patched_repo_copy(c["patches"])
            try:
                ok, detail = mod.replay(hits[0]["cex"], d)
            finally:
                shutil.rmtree(d, ignore_errors=True)
            entry["replayed"] = bool(ok)
            entry["detail"] = detail[:300] if isinstance(detail, str) else str(detail)
            entry["cex"] = hits[0]["cex"]
        canary_log.append(entry)
    canary_fail = [c for c in canary_log if not c.get("inapplicable") and not (c["found"] and c["replayed"])]

    # 2. the real exploration
    cfgs = mod.jobs(tier)
    res = explore_jobs(modname, cfgs, deadline=deadline, on_violation=on_violation,
                       slice_paths=getattr(mod, "SLICE_PATHS", 40), slice_seconds=getattr(mod, "SLICE_SECONDS", 6.0))

    # 3. known findings: witnesses found by the harness (status kf) are replayed; each listed finding must
    #    still be witnessed, otherwise it is reported as stale (not an error)
    kf_seen = {}
    for r in res.kf:
        fid = r.get("kf")
        if fid in kf_seen:
            continue
        ok, detail = mod.replay(r["cex"], None)
        if ok and fid in kf_ids:
            kf_seen[fid] = (r, detail)
        elif ok and fid not in kf_ids:
            # a violation inside a region that is not (any longer) listed as an open finding: a real violation
            path = write_replay_file(pid, r["cex"].get("kind", "cex"), r["cex"], detail)
            r["replay_path"] = path
            r["replay_detail"] = detail
            confirmed.append(r)
        elif not ok:
            not_reproduced.append(r)

    wall = time.time() - t0
    status = "held"
    rc = 0
    lines = []
    for f in kfs:
        if f["id"] in kf_seen:
            lines.append("KNOWN-FINDING: property=%s %s: %s" % (pid, f["id"], f["summary"]))
        else:
            lines.append("NOTE: known finding %s of %s was not witnessed in this run (tier %s)" % (f["id"], pid, tier))
    if confirmed:
        status, rc = "violated", 1
        for r in confirmed[:3]:
            lines.append("VIOLATION property=%s replay=%s" % (pid, r["replay_path"]))
            lines.append("  detail: %s" % (r.get("replay_detail") or r.get("why")))
    elif res.errors or not_reproduced or canary_fail:
        status, rc = "harness-error", 3
        for e in res.errors[:2]:
            lines.append("HARNESS-ERROR: " + e[-1500:])
        for r in not_reproduced[:3]:
            lines.append("HARNESS-ERROR: counterexample did not reproduce on the real code: %s / %s / %s"
                         % (r.get("why"), json.dumps(r.get("cex"), default=str)[:600], r.get("replay_detail")))
        for c in canary_fail:
            lines.append("HARNESS-ERROR: canary %s not detected/replayed: %s" % (c["name"], json.dumps(c, default=str)[:600]))
    elif tier == "thorough" and res.inconclusive and all("solver unknown" in str(r.get("why")) for r in res.inconclusive):
        # thorough tier only: on some paths the solver gave no answer within its time limit (two solver configurations tried).
        # Nothing is claimed for those paths (listed in the evidence, exhaustive = false); every decided path held.
        status = "held-partial"
        undecided = {}
        for r in res.inconclusive:
            key = json.dumps(r.get("cfg"), default=str)[:200]
            undecided[key] = undecided.get(key, 0) + 1
        lines.append("PARTIAL: %d paths undecided by the solver within %d s per query (two configurations) in %d explorations; those paths are NOT "
                     "claimed (see coverage.paths_undecided)" % (len(res.inconclusive), 120, len(undecided)))
        for key, n_ in sorted(undecided.items())[:6]:
            lines.append("  undecided: %d paths of %s" % (n_, key))
        if res.open_prefixes:
            lines.append("PARTIAL: time budget of %ds ended with %d unexplored prefixes in %d of %d explorations; those bounds are NOT claimed "
                         "(see coverage.jobs_incomplete)" % (budget_s, res.open_prefixes, len(res.incomplete_jobs), len(cfgs)))
    elif res.inconclusive or (res.open_prefixes and tier == "quick"):
        status, rc = "inconclusive", 2
        for r in res.inconclusive[:3]:
            lines.append("INCONCLUSIVE: %s (cfg %s)" % (r.get("why"), json.dumps(r.get("cfg"), default=str)[:200]))
        if res.open_prefixes:
            lines.append("INCONCLUSIVE: %d unexplored prefixes when the time budget of %ds ended" % (res.open_prefixes, budget_s))
    elif res.open_prefixes:
        # thorough tier only: the time budget ended before every exploration was exhausted.  Nothing is claimed for the
        # unfinished explorations (listed in the evidence, exhaustive = false); the finished ones held.
        status = "held-partial"
        lines.append("PARTIAL: time budget of %ds ended with %d unexplored prefixes in %d of %d explorations; those bounds are NOT claimed "
                     "(see coverage.jobs_incomplete)" % (budget_s, res.open_prefixes, len(res.incomplete_jobs), len(cfgs)))
    if res.paths == 0 and rc == 0:
        status, rc = "harness-error", 3
        lines.append("HARNESS-ERROR: no path reached the assertion")

    reached = res.by_status.get("ok", 0) + res.by_status.get("kf", 0) + res.by_status.get("viol", 0)
    if rc == 0 and reached == 0:
        status, rc = "harness-error", 3
        lines.append("HARNESS-ERROR: no path reached the final assertion (vacuous)")

    evidence = {
        "property_id": pid, "tier": tier, "seed": seed, "level": getattr(mod, "LEVEL", "model_checking"),
        "coverage": {
            "states": max(res.paths, 1), "transitions": max(res.queries, 1),
            "traces_validated_against_impl": len(confirmed) + len(kf_seen) + sum(1 for c in canary_log if c.get("replayed")),
            "samples": res.samples[:6] or [{"note": "no sample recorded"}],
            "exhaustive": bool(res.open_prefixes == 0 and not res.inconclusive and not res.errors),
            "explanation": getattr(mod, "EXPLANATION", mod.TITLE),
            "technique": "symbolic execution of the repository's Python source (decision-replay forking over z3 terms); "
                         "per path: z3 check of path-condition AND NOT property",
            "functions_encoded": sorted(k for k, v in res.entered.items() if v),
            "bounds": mod.bounds(tier) if hasattr(mod, "bounds") else {},
            "jobs": len(cfgs), "paths": res.paths, "paths_by_status": res.by_status,
            "paths_reaching_assertion": reached,
            "open_prefixes": res.open_prefixes, "solver_queries": res.queries, "solver_s": round(res.solver_s, 2),
            "forks": res.forks, "max_path_len": res.max_path_len, "cpu_s": round(res.cpu_s, 1),
            "numpy_calls_delegated_concretely": res.delegated,
            "canaries": canary_log,
            "jobs_incomplete": [{k: v for k, v in cfgs[i].items() if not (k in ("graph", "base") and isinstance(v, list))} for i in res.incomplete_jobs],
            "per_job": [dict(cfg={k: v for k, v in cfgs[i].items() if not (k == "graph" and isinstance(v, list))}, **res.per_job.get(i, {})) for i in range(len(cfgs))],
            "known_findings_witnessed": sorted(kf_seen),
            "paths_undecided": [{"cfg": {k: v for k, v in (r.get("cfg") or {}).items() if not (k in ("graph", "base") and isinstance(v, list))}, "why": str(r.get("why"))[:200]} for r in res.inconclusive[:200]],
            "stubs": getattr(mod, "STUBS", []),
            "status": status,
        },
        "assumptions": getattr(mod, "ASSUMPTIONS", []),
        "wall_s": round(wall, 2),
        "violations": len(confirmed),
    }
    if hasattr(mod, "extra_evidence"):
        evidence["coverage"].update(mod.extra_evidence(tier, res))
    os.makedirs(os.path.join(VERIF, "evidence"), exist_ok=True)
    with open(os.path.join(VERIF, "evidence", pid + ".json"), "w") as f:
        json.dump(evidence, f, indent=1, sort_keys=True, default=str)
    print("%s [%s] %s: %d paths (%s), %d solver queries, %.1fs solver, %d open prefixes, canaries %s, wall %.1fs"
          % (pid, tier, status, res.paths, ", ".join("%s=%d" % kv for kv in sorted(res.by_status.items())), res.queries,
             res.solver_s, res.open_prefixes, "/".join(("n/a" if c.get("inapplicable") else ("ok" if (c["found"] and c["replayed"]) else "FAIL")) for c in canary_log) or "-", wall))
    for ln in lines:
        print(ln)
    sys.stdout.flush()
    return rc
