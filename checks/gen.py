"""Shared harness for the mask-driven graph generator (connect_coding_graph / connect_valid_graph /
find_vertices): used by C03, C04(gen), C11, C13, C20.

The vertex mask is symbolic inside a *window*: `free` mask positions are z3 Booleans, the others are fixed
by `base`.  The generator's own control flow looks at every mask bit, so each path ends up with a concrete
mask (policy WHERE_POLICY='concrete'); the solver's job is the exhaustive enumeration of the window
(work-list empty <=> every mask of the window was executed) and the per-path uniqueness query
`pc AND mask != model-mask` (unsat), after which the comparison with the independent oracle is concrete."""
import os
import random

import z3

from symx import core, symnp, oracles
from symx.core import SymBool, SymInt
from symx.oracles import succ

SEED = int(os.environ.get("VERIF_SEED", "0") or 0)


# -------------------------------------------------------------------------------- windows
def gc_mask(k):
    out = []
    for v in range(4 ** k):
        digits = [(v // 4 ** (k - 1 - i)) % 4 for i in range(k)]
        gc = sum(1 for d in digits if d in (1, 2))
        out.append(1 if 2 * gc == k else 0)
    return out


ROAD3 = [1, 6, 24, 34, 9, 37, 20, 19, 15, 62, 58, 43, 45, 55, 28]            # induced dead-end roads (one trimming round per vertex)
ROAD4 = [12, 51, 207, 61, 246, 216, 99, 141, 55, 220, 112, 192, 2, 9, 36, 146, 75, 45, 180, 209, 70, 27, 108, 177, 197, 22]


def cycle_window3():
    """order-3 masks around an information-free cycle with tails: AAA (self-loop), TAA/CAA/GAA -> AAA, GTA/TTA/ATA -> TAA, AGT -> GTA
    (predecessors in every one of the four 'first nucleotide' positions, two and three cascade waves deep):
    the threshold-1 clean-up and its predecessor cascade (two and more waves) are exercised for an observed length other than 2."""
    return ([0] * 64, [0, 48, 44, 60, 12, 16, 32, 11])


def road_windows(k):
    """masks that need many trimming rounds: an induced path of the de Bruijn graph whose last vertex is a dead end (the generator must
    drop one vertex per round), alone and next to a surviving complete component; a few free bits around it."""
    road = ROAD3 if k == 3 else ROAD4
    N = 4 ** k
    base = [0] * N
    for v in road:
        base[v] = 1
    free = [road[0], road[-1], road[len(road) // 2]]
    return [(base, sorted(free))]


def windows(k, tier):
    """list of (base mask, free positions)."""
    N = 4 ** k
    rng = random.Random(1000 * k + 17 + SEED)
    W = []
    if k == 1:
        return [([0] * 4, list(range(4)))]
    if k == 2 and tier == "thorough":
        return [([0] * N, list(range(N)))]          # the whole of M_2: all 65,536 masks
    nfree = {("quick", 2): 10, ("quick", 3): 8, ("thorough", 3): 12}[(tier, k)]
    nwin = {("quick", 2): 3, ("quick", 3): 2, ("thorough", 3): 4}[(tier, k)]
    bases = [[1] * N, gc_mask(k) if k % 2 == 0 else [1 if rng.random() < 0.7 else 0 for _ in range(N)], [0] * N]
    while len(bases) < nwin:
        p = rng.choice([0.3, 0.5, 0.7, 0.85])
        bases.append([1 if rng.random() < p else 0 for _ in range(N)])
    for i in range(nwin):
        base = bases[i]
        # always let vertex 0 and the last vertex vary in some window (boundary indices)
        free = sorted(rng.sample(range(N), nfree))
        if i == 0:
            free = sorted(set(free[:-2]) | {0, N - 1})
            while len(free) < nfree:
                x = rng.randrange(N)
                if x not in free:
                    free = sorted(free + [x])
        W.append((base, free))
    return W


def mask_universe(e, cfg, name="m"):
    k = cfg["k"]
    N = 4 ** k
    free = set(cfg["free"])
    bools = []
    for v in range(N):
        if v in free:
            bools.append(z3.Bool("%s_%d" % (name, v)))
        else:
            bools.append(z3.BoolVal(bool(cfg["base"][v])))
    if cfg.get("dtype", "int") == "bool":
        arr = symnp.Arr.new([(SymBool(b) if not z3.is_true(b) and not z3.is_false(b) else z3.is_true(b)) for b in bools], (N,), symnp.BOOL)
    else:
        arr = symnp.Arr.new([(SymInt(z3.If(b, 1, 0)) if not z3.is_true(b) and not z3.is_false(b) else int(z3.is_true(b))) for b in bools], (N,), symnp.INT)
    return arr, bools


def pin_mask(e, bools):
    """force every free mask bit to be decided on this path, return the concrete mask and check uniqueness."""
    for b in bools:
        e.decide(b)
    m = e._ensure_model()
    mask = [1 if z3.is_true(m.eval(b, model_completion=True)) else 0 for b in bools]
    diff = z3.Or([b != z3.BoolVal(bool(x)) for b, x in zip(bools, mask)])
    r, _ = e.check(diff)
    if r != "unsat":
        raise core.Inconclusive("path does not pin the mask")
    return mask


# -------------------------------------------------------------------------------- concrete oracles
def gfp(k, mask, t):
    """largest vertex set closed under 'at least t kept successors' (+ for t=1: reaches a branching vertex)."""
    N = 4 ** k
    keep = [bool(x) for x in mask]
    while True:
        changed = False
        for v in range(N):
            if keep[v] and sum(keep[succ(v, j, k)] for j in range(4)) < t:
                keep[v] = False
                changed = True
        if t == 1:
            good = [keep[v] and sum(keep[succ(v, j, k)] for j in range(4)) >= 2 for v in range(N)]
            ch = True
            while ch:
                ch = False
                for v in range(N):
                    if keep[v] and not good[v] and any(keep[succ(v, j, k)] and good[succ(v, j, k)] for j in range(4)):
                        good[v] = True
                        ch = True
            for v in range(N):
                if keep[v] and not good[v]:
                    keep[v] = False
                    changed = True
        if not changed:
            break
    return keep


def induced(k, keep):
    N = 4 ** k
    return [[(succ(v, j, k) if keep[v] and keep[succ(v, j, k)] else -1) for j in range(4)] for v in range(N)]


def wf_concrete(k, rows, t):
    """WF(t) on a concrete accessor; returns None or a description of what fails."""
    N = 4 ** k
    live = [any(x >= 0 for x in r) for r in rows]
    for v in range(N):
        for j in range(4):
            x = rows[v][j]
            if x != -1 and x != succ(v, j, k):
                return "entry [%d][%d] = %d is neither -1 nor the shift successor %d" % (v, j, x, succ(v, j, k))
            if x >= 0 and not live[x]:
                return "arc %d -> %d leads to a vertex without arcs" % (v, x)
        d = sum(1 for x in rows[v] if x >= 0)
        if live[v] and d < max(t, 1):
            return "vertex %d has out-degree %d < %d" % (v, d, t)
    good = [sum(1 for x in rows[v] if x >= 0) >= 2 for v in range(N)]
    ch = True
    while ch:
        ch = False
        for v in range(N):
            if live[v] and not good[v] and any(x >= 0 and good[x] for x in rows[v]):
                good[v] = True
                ch = True
    for v in range(N):
        if live[v] and not good[v]:
            return "vertex %d cannot reach a branching vertex" % v
    return None


def concrete_rows(arr):
    """rows of a shim accessor whose entries are concrete on this path (concretises leftovers)."""
    a = arr.fix_len()
    vals = [core.concrete_int(x) if core.is_sym(x) else int(x) for x in a.elems()]
    c = a.shape[1]
    return [vals[i * c:(i + 1) * c] for i in range(a.shape[0])]


def gen_cex(cfg, mask, extra=None):
    c = {"kind": "gen", "k": cfg["k"], "t": cfg.get("t"), "mask": mask, "dtype": cfg.get("dtype", "int"), "want": cfg.get("want", "exact")}
    if extra:
        c.update(extra)
    return c


def run_generator(e, L, cfg):
    """returns (mask, outcome, value): outcome in 'ok' (value=(vertices, rows)), 'ValueError', 'exc' (value=exception)."""
    symnp.WHERE_POLICY = "concrete"
    try:
        arr, bools = mask_universe(e, cfg)
        before = list(arr.buf)
        try:
            vs, acc = L.connect_coding_graph(cfg["k"], arr, cfg["t"])
            outcome, value = "ok", (vs, concrete_rows(acc))
        except core.Abort:
            raise
        except ValueError as ex:
            outcome, value = "ValueError", ex
        except Exception as ex:
            outcome, value = "exc", ex
        mask = pin_mask(e, bools)
        after = [core.concrete_int(x) if core.is_sym(x) else int(x) for x in arr.buf]
        modified = [i for i, (a, b) in enumerate(zip(mask, after)) if a != b]
        return mask, outcome, value, modified, arr
    finally:
        symnp.WHERE_POLICY = "symlen"


def denoted_vertices(vs, k, t):
    """vertex set denoted by the generator's second return value (index list at threshold 1, 0/1 mask otherwise)"""
    if isinstance(vs, symnp.Arr):
        vals = [core.concrete_int(x) if core.is_sym(x) else (int(x) if not isinstance(x, bool) else x) for x in vs.fix_len().elems()]
        if vs.dtype == symnp.BOOL or (t >= 2 and len(vals) == 4 ** k and set(vals) <= {0, 1}):
            return [i for i, x in enumerate(vals) if x]
        return sorted(vals)
    return sorted(int(x) for x in vs)


def body_wf(e, L, cfg):
    cfg = dict(cfg, want="wf")
    mask, outcome, value, modified, arr = run_generator(e, L, cfg)
    if outcome == "exc":
        return {"status": "viol", "why": "connect_coding_graph raised %s: %s" % (type(value).__name__, value), "cex": gen_cex(cfg, mask)}
    if outcome == "ValueError":
        return {"status": "ok", "sample": {"mask": mask, "t": cfg["t"], "outcome": "ValueError"}}
    vs, rows = value
    why = wf_concrete(cfg["k"], rows, cfg["t"])
    if why:
        return {"status": "viol", "why": "generated graph is not well-formed: " + why, "cex": gen_cex(cfg, mask)}
    # every vertex the generator reports as retained must be a vertex encoding can start from (out-degree >= 1)
    dead = [v for v in denoted_vertices(vs, cfg["k"], cfg["t"]) if not (0 <= v < len(rows)) or not any(x >= 0 for x in rows[v])]
    if dead:
        return {"status": "viol", "why": "vertices %s are reported as retained but have no out-arc in the returned graph" % dead[:6], "cex": gen_cex(cfg, mask, {"retained": True})}
    return {"status": "ok", "sample": {"mask": mask, "t": cfg["t"], "live": sum(1 for r in rows if any(x >= 0 for x in r))}}


def body_exact(e, L, cfg):
    """C03: exact comparison with the greatest-fixed-point (+ reachability) oracle."""
    k, t = cfg["k"], cfg["t"]
    cfg = dict(cfg, want="exact", trim=True)
    mask, outcome, value, modified, arr = run_generator(e, L, cfg)
    cex = gen_cex(cfg, mask, {"trim": True})
    if modified:
        return {"status": "viol", "why": "input mask modified at positions %s" % modified, "cex": cex}
    keep = gfp(k, mask, t)
    if outcome == "exc":
        return {"status": "viol", "why": "connect_coding_graph raised %s: %s" % (type(value).__name__, value), "cex": cex}
    if not any(keep):
        if outcome != "ValueError":
            return {"status": "viol", "why": "largest closed sub-graph is empty but a graph was returned", "cex": cex}
        return {"status": "ok", "sample": {"mask": mask, "t": t, "outcome": "ValueError"}}
    if outcome == "ValueError":
        return {"status": "viol", "why": "ValueError although the largest closed sub-graph has %d vertices" % sum(keep), "cex": cex}
    vs, rows = value
    exp = induced(k, keep)
    if rows != exp:
        return {"status": "viol", "why": "accessor differs from the largest closed sub-graph", "cex": cex}
    # returned vertex description
    denoted = denoted_vertices(vs, k, t)
    live = [v for v in range(4 ** k) if any(x >= 0 for x in exp[v])]
    if denoted != live:
        return {"status": "viol", "why": "vertex description %s != vertices with arcs %s" % (denoted, live), "cex": cex}
    # second implementation on latter maps (t >= 2)
    if t >= 2:
        symnp.WHERE_POLICY = "concrete"
        try:
            m2 = symnp.Arr.new(mask, (4 ** k,), symnp.BOOL if cfg.get("dtype") == "bool" else symnp.INT)
            try:
                vg = L.connect_valid_graph(k, m2)
                lm = L.accessor_to_latter_map(vg)
                tr = L.latter_map_to_accessor(lm, k, threshold=t)
                trows = concrete_rows(tr)
            except core.Abort:
                raise
            except Exception as ex:
                return {"status": "viol", "why": "latter-map trimming raised %s: %s" % (type(ex).__name__, ex), "cex": cex}
        finally:
            symnp.WHERE_POLICY = "symlen"
        if trows != exp:
            return {"status": "viol", "why": "trimming the latter map to the same threshold gives a different graph", "cex": cex}
    return {"status": "ok", "sample": {"mask": mask, "t": t, "live": len(live)}}


def body_valid(e, L, cfg):
    """C11(b): connect_valid_graph == induced sub-graph of the mask."""
    symnp.WHERE_POLICY = "concrete"
    k = cfg["k"]
    cfg = dict(cfg, want="valid")
    try:
        arr, bools = mask_universe(e, cfg)
        try:
            acc = L.connect_valid_graph(k, arr)
            outcome, value = "ok", concrete_rows(acc)
        except core.Abort:
            raise
        except ValueError as ex:
            outcome, value = "ValueError", ex
        except Exception as ex:
            outcome, value = "exc", ex
        mask = pin_mask(e, bools)
        after = [core.concrete_int(x) if core.is_sym(x) else int(x) for x in arr.buf]
    finally:
        symnp.WHERE_POLICY = "symlen"
    cex = gen_cex(cfg, mask)
    if after != mask:
        return {"status": "viol", "why": "input mask modified", "cex": cex}
    if outcome == "exc":
        return {"status": "viol", "why": "connect_valid_graph raised %s: %s" % (type(value).__name__, value), "cex": cex}
    if not any(mask):
        if outcome != "ValueError":
            return {"status": "viol", "why": "empty mask accepted", "cex": cex}
        return {"status": "ok", "sample": {"mask": mask, "outcome": "ValueError"}}
    if outcome == "ValueError":
        return {"status": "viol", "why": "ValueError on a non-empty mask", "cex": cex}
    if value != induced(k, [bool(x) for x in mask]):
        return {"status": "viol", "why": "valid graph differs from the induced sub-graph", "cex": cex}
    return {"status": "ok", "sample": {"mask": mask, "arcs": sum(1 for r in value for x in r if x >= 0)}}
