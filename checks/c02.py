"""C02 -- every emitted strand obeys the biochemical constraints it was generated for."""
import sys

import z3

from checks import coding, common, gen, c12
from symx import core, symnp, oracles, strs, stubs
from symx.core import SymInt, SymBool, zint

PID = "C02"
TITLE = "Every emitted strand obeys the biochemical constraints it was generated for"
EXPLANATION = ("solver-checked lemmas plus bounded end-to-end runs.  (walk) the strand returned by the real encode is a walk of the graph, on all "
               "arc subsets / starts / messages / tables, both modes.  (window) shift-append arithmetic: the i-th window of kmer(start)+strand is "
               "the k-mer of the i-th vertex.  (ctor) real LocalBioFilter.__init__ with symbolic observed length and run limit: every accepted "
               "configuration must be window-decidable.  (e2e) for a grid of built-in configurations, k = 2,3, thresholds 1..3: real find_vertices "
               "+ real connect_coding_graph build the graph, then the real encode runs on a symbolic message / retained start / table and the REAL "
               "LocalBioFilter.valid is executed on every symbolic window of kmer(start)+strand and on the whole strand, alone and prefixed.  (user) the "
               "same pipeline with an uninterpreted user-defined window predicate (one Bool per k-mer)")
STUBS = [stubs.STUB_NOTE, "user-defined filter = uninterpreted predicate (one z3 Bool per k-mer)"]
ASSUMPTIONS = ["composition of the lemmas for all k and all message lengths is a written argument; only the bounded end-to-end runs are decided as a whole",
               "end-to-end configurations are window-decidable ones (run limit < window); the constructor clause is checked separately (known finding C02-KF1)"]
BUDGET_S = {"quick": 1500, "thorough": 1500}


def make_loader(cfg):
    if cfg["side"] in ("walk", "e2e", "user"):
        return coding.make_loader(cfg)
    return {"_key": "real"}


E2E = [dict(k=2, runs=1, gc=None, motifs=None), dict(k=2, runs=None, gc=[0.5, 0.5], motifs=None), dict(k=2, runs=1, gc=None, motifs=["GC"]),
       dict(k=3, runs=2, gc=[0.3, 0.7], motifs=None), dict(k=3, runs=1, gc=None, motifs=["ACA", "GG"]), dict(k=3, runs=2, gc=[0.0, 0.34], motifs=["TA"]),
       dict(k=3, runs=None, gc=[0.4, 0.7], motifs=["CG"]), dict(k=2, runs=None, gc=None, motifs=["A"])]
MOTIF_LISTS = [None, ["TG", "ACGTC"], ["ACGT", "TT"], ["G"], ["CCCCCC", "T", "AT"]]


def jobs(tier):
    J = []

    def add(**kw):
        J.append(kw)
    q = tier == "quick"
    add(side="walk", k=1, L=3, fast=False, table=True, vt=0, max_steps=3 if q else 4)
    add(side="walk", k=1, L=3, fast=True, table=True, vt=0, max_steps=3 if q else 4)
    add(side="walk", k=2, L=2, fast=False, table=False, vt=0, max_steps=2 if q else 3)
    if not q:
        add(side="walk", k=2, L=3, fast=True, table=False, vt=0, max_steps=3)
        add(side="walk", k=2, L=2, fast=False, table=True, vt=0, max_steps=2)
    for k in range(1, (9 if q else 13)):
        add(side="window", k=k)
    for ml in MOTIF_LISTS:
        add(side="ctor", motifs=ml, with_runs=True)
    add(side="ctor", motifs=["AC"], with_runs=False)
    for c in (E2E[:5] if q else E2E):
        for t in ((1, 2) if q else (1, 2, 3)):
            for fast in (False, True):
                add(side="e2e", config=c, t=t, fast=fast, L=3 if q else 4, table=(t == 1), k=c["k"], vt=0)
    for t in (1, 2):
        add(side="user", k=1, t=t, L=2, fast=False, table=False, vt=0, free=list(range(4)), base=[0] * 4)
    for base, free in gen.windows(2, "quick")[:(1 if q else 3)]:
        add(side="user", k=2, t=2, L=2, fast=False, table=False, vt=0, free=free[:(5 if q else 8)], base=base)
        add(side="user", k=2, t=1, L=2, fast=True, table=False, vt=0, free=free[:(5 if q else 8)], base=base)
    return J


def bounds(tier):
    js = jobs(tier)
    return {"walk lemma": "k <= 2, L <= 3, all arc subsets / tables", "window lemma": "k <= %d" % max(j["k"] for j in js if j["side"] == "window"),
            "constructor": "observed_length, max_homopolymer_runs in 1..12 (symbolic), motif lists %s" % MOTIF_LISTS,
            "end-to-end": "%d built-in configurations at k=2,3 x thresholds x modes, messages of L <= %d bits, every retained start" % (len(set(str(j["config"]) for j in js if j["side"] == "e2e")), max(j["L"] for j in js if j["side"] == "e2e")),
            "user-defined": "k=1 all 16 verdict patterns; k=2 windows of free verdicts", "outside": "k >= 4, longer messages"}


def kmer_codes(vterm, k):
    return [oracles.code_of_index((vterm / (4 ** (k - 1 - i))) % 4) for i in range(k)]


def body(e, L, cfg):
    side = cfg["side"]
    if side == "walk":
        return body_walk(e, L, cfg)
    if side == "window":
        return body_window(e, L, cfg)
    if side == "ctor":
        return body_ctor(e, L, cfg)
    if side == "e2e":
        return body_e2e(e, L, cfg)
    return body_user(e, L, cfg)


def body_walk(e, L, cfg):
    g, bs, start, tab = coding.universe(e, cfg)
    kind, val = coding.run_encode(e, L, cfg, g, bs, start, tab)
    if kind != "ok":
        return {"status": "skip" if kind != "budget" else "budget", "why": str(val)}
    codes = strs.codes_of(val[0])
    r, m = e.check(z3.Not(oracles.is_walk(g, start, codes)))
    if r == "sat":
        return {"status": "viol", "why": "strand leaves the graph", "cex": coding.cex_of(m, g, bs, start, tab, cfg, "walk")}
    if r != "unsat":
        return {"status": "inconclusive", "why": "solver unknown"}
    return {"status": "ok", "sample": coding.sample_of(e, g, bs, start, tab, cfg, codes)}


def body_window(e, L, cfg):
    """one-step window lemma on the real obtain_latters (induction over the steps is immediate): if the k-mer of v has digits
    d_0..d_{k-1}, column j leads to the vertex whose k-mer is d_1..d_{k-1} j, i.e. the next window of kmer(v) + nucleotide j."""
    k = cfg["k"]
    ds = [z3.Int("d_%d" % i) for i in range(k)]
    for d in ds:
        e.assume(z3.And(d >= 0, d <= 3))
    start = z3.Int("start")
    e.assume(start == z3.Sum([ds[i] * 4 ** (k - 1 - i) for i in range(k)]))
    e.assume(z3.And(start >= 0, start < 4 ** k))
    la = L.obtain_latters(SymInt(start), k)
    conj = []
    for j in range(4):
        window = ds[1:] + [z3.IntVal(j)]
        conj.append(zint(la[j]) == z3.Sum([window[i] * 4 ** (k - 1 - i) for i in range(k)]))
    r, m = e.check(z3.Not(z3.And(conj)))
    if r == "sat":
        return {"status": "viol", "why": "window of kmer(v)+nucleotide is not the k-mer of the successor",
                "cex": {"kind": "succ", "k": k, "v": m.eval(start, model_completion=True).as_long()}}
    if r != "unsat":
        return {"status": "inconclusive", "why": "solver unknown"}
    return {"status": "ok", "sample": {"lemma": "window (one step)", "k": k}}


def body_ctor(e, L, cfg):
    ol, runs = z3.Int("observed_length"), z3.Int("max_runs")
    e.assume(z3.And(ol >= 1, ol <= 12, runs >= 1, runs <= 12))
    motifs = cfg["motifs"]
    try:
        L.LocalBioFilter(observed_length=SymInt(ol), max_homopolymer_runs=SymInt(runs) if cfg["with_runs"] else None,
                         undesired_motifs=[strs.K(x) for x in motifs] if motifs else None)
    except core.Abort:
        raise
    except ValueError:
        mm = e._ensure_model()
        return {"status": "ok", "sample": {"ctor": "rejected", "observed_length": mm.eval(ol, model_completion=True).as_long(),
                                           "max_runs": mm.eval(runs, model_completion=True).as_long(), "motifs": motifs}}
    except Exception as ex:
        r, m = e.check()
        return {"status": "viol", "why": "constructor raised %s" % type(ex).__name__, "cex": ctor_cex(m, ol, runs, cfg)}
    decidable = z3.And([(runs < ol) if cfg["with_runs"] else z3.BoolVal(True)] + [len(x) <= ol for x in (motifs or [])])
    region = (runs == ol) if cfg["with_runs"] else z3.BoolVal(False)       # known finding C02-KF1
    r, m = e.check(z3.Not(decidable), z3.Not(region))
    if r == "sat":
        return {"status": "viol", "why": "constructor accepted a configuration that is not window-decidable", "cex": ctor_cex(m, ol, runs, cfg)}
    if r != "unsat":
        return {"status": "inconclusive", "why": "solver unknown"}
    r, m = e.check(z3.Not(decidable), region)
    if r == "sat":
        return {"status": "kf", "kf": "C02-KF1", "why": "run limit equal to the window accepted", "cex": ctor_cex(m, ol, runs, cfg)}
    mm = e._ensure_model()
    return {"status": "ok", "sample": {"ctor": "accepted", "observed_length": mm.eval(ol, model_completion=True).as_long(),
                                       "max_runs": mm.eval(runs, model_completion=True).as_long(), "motifs": motifs}}


def ctor_cex(m, ol, runs, cfg):
    return {"kind": "filter", "ctor_only": True, "config": {"k": m.eval(ol, model_completion=True).as_long(),
                                                             "runs": m.eval(runs, model_completion=True).as_long() if cfg["with_runs"] else None,
                                                             "gc": None, "motifs": cfg["motifs"]}}


def build_graph(L, k, mask_arr, t):
    symnp.WHERE_POLICY = "concrete"
    try:
        vs, acc = L.connect_coding_graph(k, mask_arr, t)
        return gen.concrete_rows(acc)
    finally:
        symnp.WHERE_POLICY = "symlen"


def body_e2e(e, L, cfg):
    c, k, t = cfg["config"], cfg["k"], cfg["t"]
    # history: a sibling filter (same window, run limit, GC range; other motifs) is screened first in the same process
    try:
        L.find_vertices(k, L.LocalBioFilter(observed_length=k, max_homopolymer_runs=c["runs"], gc_range=c["gc"], undesired_motifs=None if c["motifs"] else ["T"]))
    except ValueError:
        pass
    f = L.LocalBioFilter(observed_length=k, max_homopolymer_runs=c["runs"], gc_range=c["gc"], undesired_motifs=c["motifs"])
    try:
        mask = L.find_vertices(k, f)
        rows = build_graph(L, k, mask, t)
    except ValueError as ex:
        return {"status": "skip", "why": "no graph for this configuration: %s" % ex}
    return strands_obey(e, L, cfg, rows, lambda w: f.valid(w), f, c)


def strands_obey(e, L, cfg, rows, window_ok, f=None, c=None, extra_cex=None):
    k = cfg["k"]
    cfg2 = dict(cfg, graph=rows, max_steps=max(cfg["L"], 1) * len(rows) + 1)       # C04's bound: L * |V| steps
    g, bs, start, tab = coding.universe(e, cfg2)
    live = [v for v in range(g.N) if any(x >= 0 for x in rows[v])]
    e.assume(z3.Or([start == v for v in live]))
    kind, val = coding.run_encode(e, L, cfg2, g, bs, start, tab)
    if kind == "skip" and "Not implementation" in str(val):
        return {"status": "skip", "why": val}
    def cex(m, why):
        cx = coding.cex_of(m, g, bs, start, tab, cfg2, "walk")
        cx.update({"kind": "e2e", "config": c, "k": k, "t": cfg["t"], "why": why})
        if extra_cex:
            cx.update(extra_cex(m))
        return cx
    if kind != "ok":
        r, m = e.check()
        if r != "sat":
            return {"status": "skip"}
        return {"status": "viol", "why": "encode failed on a generated graph: %s %s" % (kind, val), "cex": cex(m, "encode")}
    codes = strs.codes_of(val[0])
    text = kmer_codes(start, k) + codes
    for i in range(len(codes) + 1):
        w = strs.mk(text[i:i + k])
        ok = window_ok(w)
        if core.is_sym(ok):
            ok = bool(ok)
        if not ok:
            r, m = e.check()
            if r == "sat":
                return {"status": "viol", "why": "window %d of kmer(start)+strand fails the filter" % i, "cex": cex(m, "window")}
    if f is not None:
        for s, nm in ((strs.mk(codes), "strand alone"), (strs.mk(text), "start k-mer + strand")):
            ok = f.valid(s, only_last=False)
            if core.is_sym(ok):
                ok = bool(ok)
            if not ok:
                r, m = e.check()
                if r == "sat":
                    return {"status": "viol", "why": "whole-sequence check fails on the %s" % nm, "cex": cex(m, "whole")}
    return {"status": "ok", "sample": coding.sample_of(e, g, bs, start, tab, {kk: v for kk, v in cfg2.items() if kk != "graph"}, codes)}


def body_user(e, L, cfg):
    k, t = cfg["k"], cfg["t"]
    N = 4 ** k
    free = set(cfg["free"])
    U = {}
    for v in range(N):
        s = "".join("ACGT"[(v // 4 ** (k - 1 - i)) % 4] for i in range(k))
        U[s] = z3.Bool("U_" + s) if v in free else z3.BoolVal(bool(cfg["base"][v]))

    class UserFilter(L.DefaultBioFilter):
        def __init__(self):
            super().__init__(screen_name="user")

        def valid(self, dna_string):
            return SymBool(U[str(dna_string)])
    symnp.WHERE_POLICY = "concrete"
    try:
        try:
            mask = L.find_vertices(k, UserFilter())
            vs, acc = L.connect_coding_graph(k, mask, t)
            rows = gen.concrete_rows(acc)
        except ValueError as ex:
            return {"status": "skip", "why": "no graph: %s" % ex}
    finally:
        symnp.WHERE_POLICY = "symlen"
    keys = sorted(U)

    def window_ok(w):
        wc = strs.codes_of(w)
        val = z3.BoolVal(False)
        for s in keys:
            val = z3.If(z3.And([wc[i] == ord(s[i]) for i in range(k)]), U[s], val)
        return SymBool(val)

    def extra(m):
        return {"accepted": [s for s in keys if z3.is_true(m.eval(U[s], model_completion=True))]}
    return strands_obey(e, L, cfg, rows, window_ok, None, None, extra)


def replay(cex, repo_dir):
    return common.run_replay(cex["kind"], cex, repo_dir)


CANARIES = [
    {"name": "arc-kept-if-source-valid-only", "cfg": dict(side="e2e", config=E2E[0], t=1, fast=False, L=3, table=False, k=2, vt=0),
     "patches": {"spiderweb": [("                for position, latter_vertex_index in enumerate(latters):\n                    if vertices[latter_vertex_index]:\n                        accessor[vertex_index][position] = latter_vertex_index\n\n            if verbose:\n                monitor(vertex_index + 1, len(vertices))\n\n        if threshold == 1:",
                                "                for position, latter_vertex_index in enumerate(latters):\n                    if vertices[latter_vertex_index] or position == 0:\n                        accessor[vertex_index][position] = latter_vertex_index\n\n            if verbose:\n                monitor(vertex_index + 1, len(vertices))\n\n        if threshold == 1:")]}},
]

if __name__ == "__main__":
    sys.exit(common.main("checks.c02"))
