"""C04 -- encoding is total, dead-end free and tight on generated graphs.

Decomposition (both parts solver-checked here):
  (gen)  every graph returned by the real connect_coding_graph (mask symbolic: all masks at k=1, windows at
         k=2/3) satisfies the well-formedness predicate WF(t)  [arcs only between live vertices, out-degree >=
         max(t,1), every live vertex reaches a branching vertex];
  (enc)  on EVERY graph satisfying WF(t) (all arc subsets, symbolic), from every live start, for every message of
         L bits, the real encode terminates within L*|V| steps, never reports a dead end, emits a walk whose last
         step is information-carrying, with product of earlier out-degrees <= value (normal) / carried bits in
         {L, L+1} (fast)."""
import sys

import z3

from checks import coding, common, gen
from symx import core, strs, oracles, stubs, symnp
from symx.core import zint, SymInt

PID = "C04"
TITLE = "Encoding is total, dead-end free and tight on generated graphs"
EXPLANATION = __doc__
STUBS = [stubs.STUB_NOTE, "Monitor.__call__ has an empty body"]
ASSUMPTIONS = ["(enc) graphs are constrained by the z3 predicate WF(t); (gen) shows the generator's outputs satisfy it within its bounds",
               "the access budget (2 reads per step, L*|V|+1 steps) is the unwinding assertion: exceeding it is reported as non-termination"]
BUDGET_S = {"quick": 1500, "thorough": 1500}


def make_loader(cfg):
    if cfg.get("side") == "gen":
        return {"_key": "real"}
    if cfg.get("side") == "step":
        return coding.step_loader(coding.STEP_HOLDER)
    return coding.make_loader(cfg)


def jobs(tier):
    J = []

    def add(**kw):
        J.append(kw)
    add(side="step", k=1, table=False)
    add(side="step", k=1, table=True)
    add(side="step", k=2, table=False)
    add(side="enc", k=1, L=2, fast=False, table=False, vt=0, wf=1, real_arith=True)
    if tier == "quick":
        add(side="enc", k=1, L=2, fast=False, table=False, vt=0, wf=1)
        add(side="enc", k=1, L=3, fast=True, table=False, vt=0, wf=1, no_deg3=True)
        add(side="enc", k=1, L=2, fast=False, table=True, vt=0, wf=2)
        add(side="enc", k=2, L=1, fast=False, table=False, vt=0, wf=2)
        for t in (1, 2, 3, 4):
            add(side="gen", k=1, t=t, free=list(range(4)), base=[0] * 4)
        for base, free in gen.windows(2, "quick"):
            for t in (1, 2):
                add(side="gen", k=2, t=t, free=free, base=base)
    else:
        for L in (1, 2, 3):
            add(side="enc", k=1, L=L, fast=False, table=False, vt=0, wf=1)
            add(side="enc", k=1, L=L, fast=True, table=False, vt=0, wf=1, no_deg3=True)
        add(side="enc", k=1, L=4, fast=False, table=False, vt=0, wf=2)
        add(side="enc", k=1, L=2, fast=False, table=True, vt=0, wf=1)
        add(side="enc", k=1, L=2, fast=True, table=True, vt=0, wf=1, no_deg3=True)
        add(side="enc", k=2, L=2, fast=False, table=False, vt=0, wf=2)
        add(side="enc", k=2, L=2, fast=True, table=False, vt=0, wf=2, no_deg3=True)
        add(side="enc", k=2, L=1, fast=False, table=False, vt=0, wf=1)
        for t in (1, 2, 3, 4):
            add(side="gen", k=1, t=t, free=list(range(4)), base=[0] * 4)
        for base, free in gen.windows(2, "thorough"):
            for t in (1, 2, 3):
                add(side="gen", k=2, t=t, free=free, base=base)
        for base, free in gen.windows(3, "thorough"):
            for t in (1, 2):
                add(side="gen", k=3, t=t, free=free, base=base)
    base, free = gen.cycle_window3()
    add(side="gen", k=3, t=1, free=free, base=base)
    for k in (3, 4):
        for base, free in gen.road_windows(k):
            add(side="gen", k=k, t=1, free=free, base=base)
    return J


def bounds(tier):
    js = jobs(tier)
    return {"step": "one normal-mode loop iteration from ANY state (value V >= 1 unbounded, any live vertex) on EVERY well-formed graph of order <= 2: "
                    "no dead end, live successor, (V, distance to branching) decreases",
            "enc": {"orders_k": sorted(set(j["k"] for j in js if j["side"] == "enc")), "max_message_bits": max(j["L"] for j in js if j["side"] == "enc"),
                    "graphs": "all arc subsets satisfying WF(t) (symbolic)", "step_budget": "L*4^k+1"},
            "gen": {"masks": "k=1: all 16; k=2/3: windows of %d free mask bits around concrete masks" % max(len(j["free"]) for j in js if j["side"] == "gen"),
                    "windows": len([j for j in js if j["side"] == "gen"])},
            "outside": "k >= 3 for (enc)/(step), masks outside the windows for (gen); tightness for longer messages; the induction that turns the "
                       "solver-checked ranking step into termination for all lengths is the usual well-founded-order argument (written)"}


def body(e, L, cfg):
    if cfg["side"] == "gen":
        return gen.body_wf(e, L, cfg)
    if cfg["side"] == "step":
        return body_step(e, L, cfg)
    g, bs, start, tab = coding.universe(e, cfg)
    N, Lb, fast = g.N, cfg["L"], bool(cfg.get("fast"))
    cfg = dict(cfg, max_steps=max(Lb, 1) * N + 1)
    kind, val = coding.run_encode(e, L, cfg, g, bs, start, tab)
    if kind == "skip":
        return coding.viol(e, "encode reported: %s" % val, g, bs, start, tab, cfg, "tight") or {"status": "skip"}
    if kind == "budget":
        return coding.viol(e, "encode did not finish within L*|V|+1 steps", g, bs, start, tab, cfg, "tight") or {"status": "skip"}
    if kind == "exc":
        return coding.viol(e, "encode raised %s: %s" % (type(val).__name__, val), g, bs, start, tab, cfg, "tight") or {"status": "skip"}
    strand = val[0]
    codes = strs.codes_of(strand)
    n = len(codes)
    conj = []
    if n > max(Lb, 1) * N:
        conj.append(z3.BoolVal(False))
    oks, vs = oracles.walk_terms(g, start, codes)
    if n:
        conj.append(oks[-1])
        degs = [g.sel(vs[i], lambda u: g.deg(u)) for i in range(n)]
        conj.append(degs[-1] >= 2)
        if not fast:
            p = z3.IntVal(1)
            for d in degs[:-1]:
                p = z3.If(d == 2, 2 * p, z3.If(d == 3, 3 * p, z3.If(d == 4, 4 * p, p)))
            conj.append(p <= oracles.bits_value(bs))
        else:
            carried = z3.Sum([z3.If(d == 4, 2, z3.If(d == 2, 1, 0)) for d in degs])
            conj.append(z3.Or(carried == Lb, carried == Lb + 1))
    else:
        # empty strand: only the zero message (normal) / the empty message (fast)
        conj.append(oracles.bits_value(bs) == 0 if not fast else z3.BoolVal(Lb == 0))
    good = z3.And(conj)
    r, m = e.check(z3.Not(good))
    if r == "sat":
        return {"status": "viol", "why": "strand is not a tight walk", "cex": coding.cex_of(m, g, bs, start, tab, cfg, "tight")}
    if r != "unsat":
        return {"status": "inconclusive", "why": "solver unknown on the final assertion"}
    return {"status": "ok", "sample": coding.sample_of(e, g, bs, start, tab, cfg, codes)}


def body_step(e, L, cfg):
    """ranking-function step (normal mode, message value unbounded): on every well-formed graph one loop iteration of the real
    encode from (V >= 1, live vertex v) never reports a dead end, lands on a live vertex, and the pair (V, distance to a
    branching vertex) decreases lexicographically -- so encode terminates for messages of EVERY length."""
    k = cfg["k"]
    g = oracles.GraphU(k)
    start = z3.Int("start")
    tab = oracles.TableU(k) if cfg.get("table") else None
    e.assume(z3.And(start >= 0, start < g.N))
    if tab is not None:
        e.assume(tab.constraints())
    e.assume(oracles.wellformed(g, 1))
    e.assume(g.sel(start, lambda u: g.live(u)))
    kind, info, V = coding.run_one_step(e, L, g, start, tab)

    def cex(m):
        v = m.eval(V, model_completion=True).as_long()
        return {"kind": "coding", "acc": g.model_rows(m), "bits": [int(b) for b in bin(v)[2:]], "start": m.eval(start, model_completion=True).as_long(),
                "fast": False, "vt": 0, "table": tab.model_rows(m) if tab is not None else None, "check": "tight"}
    if kind == "nostate":
        return {"status": "skip", "why": "ranking step not applicable to this source: " + str(info)}
    if kind != "step":
        r, m = e.check()
        if r != "sat":
            return {"status": "skip"}
        return {"status": "viol", "why": "encode step failed on a well-formed graph: %s %s" % (kind, info), "cex": cex(m)}
    col, Vn, vn = info
    deg = g.sel(start, lambda u: g.deg(u))
    nxt = (start * 4 + col) % (4 ** k)
    if k == 1:
        dist = oracles.reach_branch_dist(g)
        d0 = g.sel(start, lambda u: dist[u])
        d1 = g.sel(nxt, lambda u: dist[u])
        closer = d1 == d0 - 1
    else:
        # at an out-degree-1 vertex the only stored arc is followed (checked below); that the distance to a branching vertex
        # then drops by one is a fact about the graph alone (definition of the distance), decided with the code for k = 1 only
        closer = z3.BoolVal(True)
    conj = [g.sel(start, lambda u: z3.Or([z3.And(col == j, g.arc[u][j]) for j in range(4)])),      # a stored arc was followed
            g.sel(nxt, lambda u: g.live(u)),
            z3.Or(z3.And(deg >= 2, Vn < V, Vn >= 0), z3.And(deg == 1, Vn == V, closer))]
    r, m = e.check(z3.Not(z3.And(conj)))
    if r == "sat":
        return {"status": "viol", "why": "ranking function (value, distance to a branching vertex) does not decrease", "cex": cex(m)}
    if r != "unsat":
        return {"status": "inconclusive", "why": "solver unknown"}
    return {"status": "ok", "sample": {"step": "ranking function decreases", "k": k}}


def replay(cex, repo_dir):
    return common.run_replay(cex["kind"], cex, repo_dir)


CANARIES = [
    {"name": "non-information-vertex-consumes-a-digit", "cfg": dict(side="enc", k=1, L=2, fast=False, table=False, vt=0, wf=1),
     "patches": {"spiderweb": [("            if len(used_indices) > 1:  # current vertex contains information.\n                quotient, remainder = calculus_division(",
                                "            if len(used_indices) > 2:  # current vertex contains information.\n                quotient, remainder = calculus_division(")]}},
    {"name": "generator-stops-trimming-early", "cfg": dict(side="gen", k=2, t=1, free=[0, 1, 6, 11], base=[0] * 16),
     "patches": {"spiderweb": [("        if not changed:\n            break\n\n        vertices = new_vertices", "        if times > 0:\n            break\n\n        vertices = new_vertices")]}},
]

if __name__ == "__main__":
    sys.exit(common.main("checks.c04"))
