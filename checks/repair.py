"""Shared harness for repair_dna (C08, C09, C10): concrete generated graphs, symbolic strands / walks / edits."""
import z3

from checks import gen
from symx import core, symnp, oracles, strs, stubs
from symx.core import SymInt, zint, Budget

GC2 = [[-1, -1, -1, -1], [4, -1, -1, 7], [8, -1, -1, 11], [-1, -1, -1, -1], [-1, 1, 2, -1], [-1, -1, -1, -1], [-1, -1, -1, -1], [-1, 13, 14, -1],
       [-1, 1, 2, -1], [-1, -1, -1, -1], [-1, -1, -1, -1], [-1, 13, 14, -1], [-1, -1, -1, -1], [4, -1, -1, 7], [8, -1, -1, 11], [-1, -1, -1, -1]]


def graphs(k):
    """family of concrete graphs produced by the (oracle of the) generator for small filter-like masks."""
    out = []
    N = 4 ** k
    if k == 1:
        out.append(("complete-1", gen.induced(1, [True] * 4)))
        out.append(("ACG-1", gen.induced(1, [True, True, True, False])))
        out.append(("AC-1", gen.induced(1, [True, True, False, False])))
        out.append(("chain-1", [[0, 1, -1, -1], [-1, -1, 2, -1], [0, -1, -1, -1], [-1, -1, -1, -1]]))      # out-degrees 2, 1, 1: unique repairs
        return out
    if k == 2:
        out.append(("gc-balanced-2", GC2))
        m = [1] * 16
        for v in (0, 5, 10, 15):
            m[v] = 0                                    # no homopolymer 2-mers
        out.append(("no-homopolymer-2", gen.induced(2, gen.gfp(2, m, 2))))
        out.append(("complete-2", gen.induced(2, [True] * 16)))
        m = [1, 1, 0, 1, 1, 0, 1, 0, 0, 1, 1, 1, 1, 0, 1, 0]
        out.append(("mixed-2", gen.induced(2, gen.gfp(2, m, 1))))
        # {AC, CG, GA, AT, TA}: branching only at GA and TA (few walks), vertices with different arc sets, late detection possible
        m = [0] * 16
        for v in (1, 6, 8, 3, 12):
            m[v] = 1
        out.append(("sparse-2", gen.induced(2, gen.gfp(2, m, 1))))
        # {AC, CG, GA, GG, TT}: the cycle AC -> CG -> GA with the self-loop GG hanging on CG / leading to GA (and the lone loop TT)
        m = [0] * 16
        for v in (1, 6, 8, 10, 15):
            m[v] = 1
        out.append(("loop-2", gen.induced(2, gen.gfp(2, m, 1))))
        return out
    m = []
    for v in range(N):
        d = [(v // 4 ** (k - 1 - i)) % 4 for i in range(k)]
        m.append(0 if any(d[i] == d[i + 1] for i in range(k - 1)) else 1)
    out.append(("no-repeat-%d" % k, gen.induced(k, gen.gfp(k, m, 2))))
    return out


def graph_by_name(name):
    k = int(name.rsplit("-", 1)[1])
    for nm, rows in graphs(k):
        if nm == name:
            return k, rows
    raise KeyError(name)


def live_vertices(rows):
    return [v for v, r in enumerate(rows) if any(x >= 0 for x in r)]


def budget_for(n, k):
    return 60 * (n + 1) * k * (2 * k + 2) + 200


def warm_graph(k, mode):
    """'full': the complete graph; 'sparse': arc (v, j) present iff v + j is even (out-degree 2 everywhere)."""
    N = 4 ** k
    return [[((v * 4 + j) % N if (mode == "full" or (v + j) % 2 == 0) else -1) for j in range(4)] for v in range(N)]


def warm_calls(k, mode):
    """(strand, rows, start, order) of the warm-up repairs: a short clean walk of the warm-up graph from every vertex, then one
    call at the next order (shared buffers sized by an earlier, larger graph)."""
    out = []
    rows = warm_graph(k, mode)
    for v0 in range(4 ** k):
        v, strand = v0, ""
        for i in range(2 * k + 2):
            live = [j for j in range(4) if rows[v][j] >= 0]
            j = live[(i + v0) % len(live)]
            strand += "ACGT"[j]
            v = rows[v][j]
        out.append((strand, rows, v0, k))
    out.append(("ACGTTGCATCGAGT"[:3 * (k + 1) + 2], warm_graph(k + 1, "full"), 0, k + 1))
    return out


def warm_mode(s, start):
    n = len(strs.codes_of(s))
    return "sparse" if (n + (start if isinstance(start, int) else 0)) % 2 == 0 else "full"


def run_repair(e, L, rows, s, start, k, vt_check=None, has_indel=True, heap_size=1e9, budget=None):
    """returns (kind, value): 'ok' (value = (candidates, stats)), 'budget', 'exc' (value = exception)."""
    # history: earlier repairs on OTHER graphs (same order: from every start vertex; next order: one call) must not influence this call
    mode = warm_mode(s, start)
    for strand, wrows, wstart, kk in warm_calls(k, mode):
        try:
            L.repair_dna(strs.K(strand), symnp.array(wrows), wstart, kk, has_indel=True)
        except Exception:
            pass
    acc = symnp.array(rows)
    acc.budget = symnp.AccessBudget(budget)
    try:
        r = L.repair_dna(s, acc, start, k, vt_check=vt_check, has_indel=has_indel, heap_size=heap_size)
        return "ok", r, acc.budget.count
    except core.Abort:
        raise
    except Budget:
        return "budget", None, acc.budget.count
    except core.Inconclusive:
        raise
    except Exception as ex:
        return "exc", ex, acc.budget.count


def repair_cex(m, name, codes, start, k, chk_codes=None, has_indel=True, heap_size=1e9, **kw):
    c = {"kind": "repair", "graph": name, "strand": oracles.model_string(m, codes), "start": start if isinstance(start, int) else m.eval(start, model_completion=True).as_long(),
         "k": k, "vt_check": (oracles.model_string(m, chk_codes) if chk_codes is not None else None), "has_indel": has_indel, "heap_size": heap_size}
    c["warmup"] = warm_mode(c["strand"], c["start"])
    try:
        c["rows"] = graph_by_name(name)[1]
    except KeyError:
        pass
    c.update(kw)
    return c


# ------------------------------------------------------------------------------------------ generic body for C09(b) / C10
def body_any(e, L, cfg, check_sorted=True, check_vt=True):
    """arbitrary A/C/G/T string: repair must return a well-formed pair within the access budget; (C09) the candidate list
    is strictly increasing and, with a check supplied, every candidate reproduces it."""
    k, rows = graph_by_name(cfg["graph"])
    n = cfg["n"]
    start = cfg["start"]
    s, codes, cons = oracles.sym_string(n, "c")
    e.assume(cons)
    chk, chk_codes = None, None
    if cfg.get("nvt"):
        chk, chk_codes, cc = oracles.sym_string(cfg["nvt"], "v")
        e.assume(cc)
    symnp.WHERE_POLICY = "concrete"
    try:
        kind, val, reads = run_repair(e, L, rows, s, start, k, vt_check=chk, has_indel=cfg.get("has_indel", True),
                                      heap_size=cfg.get("heap_size", 1e9), budget=budget_for(n, k))
    finally:
        symnp.WHERE_POLICY = "symlen"

    def cex(m, **kw):
        return repair_cex(m, cfg["graph"], codes, start, k, chk_codes, cfg.get("has_indel", True), cfg.get("heap_size", 1e9), **kw)
    if kind == "budget":
        r, m = e.check()
        return {"status": "viol", "why": "repair_dna exceeded the access budget of %d graph look-ups" % budget_for(n, k), "cex": cex(m, time_limit=10, timeout_is_violation=True)}
    if kind == "exc":
        r, m = e.check()
        return {"status": "viol", "why": "repair_dna raised %s: %s" % (type(val).__name__, val), "cex": cex(m)}
    ok_shape = isinstance(val, tuple) and len(val) == 2 and isinstance(val[0], list) and isinstance(val[1], tuple) and len(val[1]) == 4
    if not ok_shape:
        r, m = e.check()
        return {"status": "viol", "why": "malformed result", "cex": cex(m)}
    cands, stats = val
    conj = []
    if check_sorted:
        for a, b in zip(cands, cands[1:]):
            conj.append(lex_lt(strs.codes_of(a), strs.codes_of(b)))
    if check_vt and chk is not None:
        for c in cands:
            cc = strs.codes_of(c)
            ref = oracles.vt_terms(cc, cfg["nvt"])
            conj.append(z3.And([x == y for x, y in zip(ref, chk_codes)]))
    if conj:
        r, m = e.check(z3.Not(z3.And(conj)))
        if r == "sat":
            return {"status": "viol", "why": "candidate list not sorted/duplicate-free or inconsistent with the supplied check", "cex": cex(m)}
        if r != "unsat":
            return {"status": "inconclusive", "why": "solver unknown"}
    mm = e._ensure_model()
    return {"status": "ok", "sample": {"graph": cfg["graph"], "strand": oracles.model_string(mm, codes), "start": start, "candidates": len(cands),
                                       "detected": int(stats[0]) if not core.is_sym(stats[0]) else "sym", "graph_reads": reads}}


def lex_lt(a, b):
    """z3 Bool: code list a < code list b lexicographically (strict)."""
    res = z3.BoolVal(len(a) < len(b))
    for x, y in reversed(list(zip(a, b))):
        res = z3.If(x < y, True, z3.If(x > y, False, res))
    return res
