"""C07 -- the path check is the documented VT function and sees every substitution."""
import sys

import z3

from checks import common, coding
from symx import core, symnp, oracles, strs, stubs
from symx.core import SymInt, zint

PID = "C07"
TITLE = "The path check is the documented VT function and sees every substitution"
EXPLANATION = ("(formula) real set_vt on a symbolic A/C/G/T strand of n nucleotides, check length n_vt: result == independent z3 formula "
               "(first symbol = sum mod 4, rest = base-4 digits of the ascent-position sum mod 4^(n_vt-1)), exactly n_vt symbols, n = 0 included. "
               "(edit) self-composition on the real code: strand s and s' = s with one symbolic substitution / one inserted or deleted C,G,T at a "
               "symbolic position: set_vt(s') != set_vt(s), and real decode(s', vt_check=set_vt(s)) on the complete order-1 graph raises ValueError "
               "(both modes).  (lemma) the same sensitivity decided on the formula alone for longer strands")
STUBS = [stubs.STUB_NOTE + " (only in the decode-rejection runs)"]
ASSUMPTIONS = ["strands are over A,C,G,T; check length >= 1"]
BUDGET_S = {"quick": 900, "thorough": 1500}


def make_loader(cfg):
    if cfg["side"] == "edit":
        return coding.make_loader(cfg)
    return {"_key": "real"}


def jobs(tier):
    J = []
    if tier == "quick":
        NS, NV, NE, NL = (0, 1, 2, 4, 6, 8), (1, 2, 3, 4), (1, 2, 3, 4), (8, 64)
    else:
        NS, NV, NE, NL = tuple(range(0, 10)), (1, 2, 3, 4, 5), (1, 2, 3, 4, 5, 6), (8, 64, 256)   # formula side: n >= 10 is not decided by z3 within 120 s per query (measured)
    # history: the same strand asked for checks of OTHER lengths first (a memo keyed by the strand alone is then stale)
    for n, nv, prior in ((3, 3, [1, 5]), (4, 2, [4]), (2, 4, [1, 2])):
        J.append(dict(side="formula", n=n, n_vt=nv, prior=prior))
    for n in NS:
        for nv in NV:
            J.append(dict(side="formula", n=n, n_vt=nv))
    for n in NE:
        for kind in ("S", "I", "D"):
            for fast in (False, True):
                J.append(dict(side="edit", n=n, n_vt=2 if n % 2 else 3, edit=kind, fast=fast))
    for n in NL:
        J.append(dict(side="lemma", n=n, n_vt=1))
    return J


def bounds(tier):
    js = jobs(tier)
    return {"formula": "n <= %d, n_vt <= %d" % (max(j["n"] for j in js if j["side"] == "formula"), max(j["n_vt"] for j in js if j["side"] == "formula")),
            "edit (real code twice + real decode)": "n <= %d, every position, every replacement / inserted / deleted C,G,T" % max(j["n"] for j in js if j["side"] == "edit"),
            "lemma (formula only)": "n <= %d" % max(j["n"] for j in js if j["side"] == "lemma"), "outside": "longer strands"}


def edited(codes, kind, e):
    """(codes', constraint) one symbolic edit of `kind` at a symbolic position."""
    n = len(codes)
    p = z3.Int("pos")
    c = z3.Int("repl")
    if kind == "S":
        e.assume(z3.And(p >= 0, p < n))
        e.assume(z3.Or([c == ord(x) for x in "ACGT"]))
        e.assume(z3.And([z3.Implies(p == i, c != codes[i]) for i in range(n)]))
        return [z3.If(p == i, c, codes[i]) for i in range(n)], p, c
    if kind == "I":
        e.assume(z3.And(p >= 0, p <= n))
        e.assume(z3.Or([c == ord(x) for x in "CGT"]))
        out = []
        for i in range(n + 1):
            prev = codes[i - 1] if i > 0 else c
            cur = codes[i] if i < n else c
            out.append(z3.If(i < p, cur, z3.If(i == p, c, prev)))
        return out, p, c
    # deletion of a C, G or T
    e.assume(z3.And(p >= 0, p < n))
    e.assume(z3.And([z3.Implies(p == i, codes[i] != 65) for i in range(n)]))
    out = []
    for i in range(n - 1):
        out.append(z3.If(i < p, codes[i], codes[i + 1]))
    return out, p, c


def body(e, L, cfg):
    n, nv = cfg["n"], cfg["n_vt"]
    s, codes, cons = oracles.sym_string(n, "c")
    e.assume(cons)
    if cfg["side"] == "lemma":
        return lemma(e, n)

    def cex(m, codes2=None):
        c = {"kind": "vt", "strand": oracles.model_string(m, codes), "n_vt": nv, "prior": cfg.get("prior")}
        if codes2 is not None:
            c["edited"] = oracles.model_string(m, codes2)
            c["fast"] = bool(cfg.get("fast"))
            c["L"] = 2 * len(codes2)
        return c
    for pv in cfg.get("prior") or []:
        try:
            L.set_vt(s, pv)
        except Exception:
            pass
    try:
        r1 = L.set_vt(s, nv)
    except core.Abort:
        raise
    except Exception as ex:
        rr, m = e.check()
        if rr != "sat":
            return {"status": "skip"}
        return {"status": "viol", "why": "set_vt raised %s: %s" % (type(ex).__name__, ex), "cex": cex(m)}
    rc = strs.codes_of(r1)
    if rc is None or len(rc) != nv:
        rr, m = e.check()
        return {"status": "viol", "why": "set_vt returned %r" % (r1,), "cex": cex(m)}
    ref = oracles.vt_terms(codes, nv)
    good = z3.And([a == b for a, b in zip(rc, ref)])
    rr, m = e.check(z3.Not(good))
    if rr == "sat":
        return {"status": "viol", "why": "set_vt differs from the documented VT formula", "cex": cex(m)}
    if rr != "unsat":
        return {"status": "inconclusive", "why": "solver unknown"}
    if cfg["side"] == "formula":
        mm = e._ensure_model()
        return {"status": "ok", "sample": {"strand": oracles.model_string(mm, codes), "n_vt": nv}}
    # edit: self-composition
    codes2, p, c = edited(codes, cfg["edit"], e)
    s2 = strs.mk(codes2)
    try:
        r2 = L.set_vt(s2, nv)
    except core.Abort:
        raise
    except Exception as ex:
        rr, m = e.check()
        if rr != "sat":
            return {"status": "skip"}
        return {"status": "viol", "why": "set_vt raised %s on the edited strand" % type(ex).__name__, "cex": cex(m, codes2)}
    rc2 = strs.codes_of(r2)
    if rc2 is None or len(rc2) != nv:
        rr, m = e.check()
        return {"status": "viol", "why": "set_vt returned %r" % (r2,), "cex": cex(m, codes2)}
    rr, m = e.check(z3.And([a == b for a, b in zip(rc, rc2)]))
    if rr == "sat":
        return {"status": "viol", "why": "a single %s edit keeps the check" % cfg["edit"], "cex": cex(m, codes2)}
    if rr != "unsat":
        return {"status": "inconclusive", "why": "solver unknown"}
    # decode must reject the edited strand when given the original check (complete order-1 graph: every string is a walk)
    acc = L.get_complete_accessor(1)
    try:
        L.decode(s2, 2 * len(codes2), acc, 0, is_faster=bool(cfg.get("fast")), vt_check=r1)
    except core.Abort:
        raise
    except ValueError:
        mm = e._ensure_model()
        return {"status": "ok", "sample": {"strand": oracles.model_string(mm, codes), "edited": oracles.model_string(mm, codes2), "edit": cfg["edit"]}}
    except Exception as ex:
        rr, m = e.check()
        return {"status": "viol", "why": "decode raised %s instead of ValueError" % type(ex).__name__, "cex": cex(m, codes2)}
    rr, m = e.check()
    if rr != "sat":
        return {"status": "skip"}
    return {"status": "viol", "why": "decode accepted an edited strand with the original check", "cex": cex(m, codes2)}


def lemma(e, n):
    """spec-level lemma in QF_BV (2-bit nucleotide values, so the sum is taken modulo 4 by construction): the first check
    symbol (sum of values mod 4) already differs after any single substitution and any inserted / deleted C, G or T."""
    vals = [z3.BitVec("x_%d" % i, 2) for i in range(n)]
    flag = z3.BitVecVal(0, 2)
    for v in vals:
        flag = flag + v
    c = z3.BitVec("c", 2)
    queries = []
    for pos in range(n):            # one query per position: the rewriter cancels the common summands
        sub = z3.BitVecVal(0, 2)
        for i, v in enumerate(vals):
            sub = sub + (c if i == pos else v)
        queries.append(("S", z3.And(c != vals[pos], sub == flag)))
        queries.append(("D", z3.And(vals[pos] != 0, flag - vals[pos] == flag)))
    queries.append(("I", z3.And(c != 0, flag + c == flag)))
    for kind, q in queries:
        s = z3.SolverFor("QF_BV")
        s.set("timeout", 60000)
        s.add(q)
        r = str(s.check())
        e.nq += 1
        if r == "sat":
            m = s.model()
            strand = "".join("ACGT"[m.eval(v, model_completion=True).as_long()] for v in vals)
            return {"status": "viol", "why": "the documented formula is insensitive to a %s edit" % kind, "cex": {"kind": "vt", "strand": strand, "n_vt": 1}}
        if r != "unsat":
            return {"status": "inconclusive", "why": "solver unknown on the flag lemma (%s, n=%d)" % (kind, n)}
    return {"status": "ok", "sample": {"lemma": "first check symbol changes under every single substitution / C,G,T indel", "n": n}}


def _edited_noassume(codes, kind):
    """like edited() but returns the constraint instead of assuming it (fresh names per kind)."""
    n = len(codes)
    p = z3.Int("pos" + kind)
    c = z3.Int("repl" + kind)
    if kind == "S":
        cons = z3.And([z3.And(p >= 0, p < n), z3.Or([c == ord(x) for x in "ACGT"])] + [z3.Implies(p == i, c != codes[i]) for i in range(n)])
        return [z3.If(p == i, c, codes[i]) for i in range(n)], cons
    if kind == "I":
        cons = z3.And(z3.And(p >= 0, p <= n), z3.Or([c == ord(x) for x in "CGT"]))
        out = []
        for i in range(n + 1):
            prev = codes[i - 1] if i > 0 else c
            cur = codes[i] if i < n else c
            out.append(z3.If(i < p, cur, z3.If(i == p, c, prev)))
        return out, cons
    cons = z3.And([z3.And(p >= 0, p < n)] + [z3.Implies(p == i, codes[i] != 65) for i in range(n)])
    return [z3.If(i < p, codes[i], codes[i + 1]) for i in range(n - 1)], cons


def replay(cex, repo_dir):
    return common.run_replay(cex["kind"], cex, repo_dir)


CANARIES = [
    {"name": "ascent-comparison-non-strict", "cfg": dict(side="formula", n=3, n_vt=2),
     "patches": {"spiderweb": [("where((values[1:] - values[:-1]) > 0)[0]", "where((values[1:] - values[:-1]) >= 0)[0]")]}},
    {"name": "check-not-compared-in-normal-mode", "cfg": dict(side="edit", n=2, n_vt=2, edit="S", fast=False),
     "patches": {"spiderweb": [("    if vt_check is not None:\n        if vt_check != set_vt(dna_sequence=dna_sequence, vt_length=len(vt_check)):\n            raise ValueError(\"At least one error is found in this DNA sequence!\")\n\n    if not is_faster:\n        quotient, saved_values",
                                "    if vt_check is not None and is_faster:\n        if vt_check != set_vt(dna_sequence=dna_sequence, vt_length=len(vt_check)):\n            raise ValueError(\"At least one error is found in this DNA sequence!\")\n\n    if not is_faster:\n        quotient, saved_values")]}},
]

if __name__ == "__main__":
    sys.exit(common.main("checks.c07"))
