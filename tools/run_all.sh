#!/bin/bash
# usage: tools/run_all.sh [quick|thorough] [ids...]  -- runs the registered checks on the current tree, prints one line each
tier=${1:-quick}; shift
cd "$(dirname "$0")/.."
ids=${@:-$(python3 -c "import json;print(' '.join(c['property_id'] for c in json.load(open('MANIFEST.json'))['checks']))")}
for id in $ids; do
  mod=checks.$(echo $id | tr A-Z a-z)
  start=$(date +%s)
  out=$(python3-vt -m $mod $tier 2>&1); rc=$?
  echo "$id rc=$rc $(($(date +%s)-start))s :: $(echo "$out" | head -1)"
  if [ $rc -ne 0 ]; then echo "$out" | tail -5; fi
done
