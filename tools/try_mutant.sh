#!/bin/bash
# usage: tools/try_mutant.sh <patch.diff> <check module> [tier]   -- applies the patch to /repo, runs the check, reverts.
set -u
patch=$1; mod=$2; tier=${3:-quick}
cd /repo || exit 9
if ! git diff --quiet; then echo "/repo is dirty"; exit 9; fi
git apply "$patch" || { echo "patch does not apply"; exit 9; }
cd /verif
rm -rf /tmp/ev_backup && cp -r evidence /tmp/ev_backup
VERIF_BUDGET_S=${VERIF_BUDGET_S:-900} python3-vt -m "$mod" "$tier" 2>&1 | tail -${TAILN:-6}
rc=${PIPESTATUS[0]}
git -C /repo checkout -- .
rm -rf /verif/evidence && cp -r /tmp/ev_backup /verif/evidence && rm -rf /tmp/ev_backup
echo "rc=$rc"
