"""setup / conformance: the tooling is importable and the numpy shim agrees with real numpy on the repository's own
doctest inputs (concrete mode).  Exit 0 on success."""
import sys
import os
sys.path.insert(0, os.path.dirname(os.path.dirname(os.path.abspath(__file__))))


def main():
    import z3, numpy, networkx  # noqa
    from symx import conformance
    n, bad = conformance.run()
    print("symx selfcheck: %d conformance comparisons, %d disagreements" % (n, len(bad)))
    for b in bad[:10]:
        print("  DISAGREE:", b)
    return 1 if bad else 0


if __name__ == "__main__":
    sys.exit(main())
