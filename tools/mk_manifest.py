#!/usr/bin/env python3
"""Regenerate /verif/MANIFEST.json from the table below (keeps it valid at all times)."""
import json, os, sys
V = os.path.dirname(os.path.dirname(os.path.abspath(__file__)))
TECH = "symbolic execution of the repository's Python source (decision-replay forking over z3 terms) + z3 query 'path condition AND NOT property' per path; counterexamples replayed on the real code"
NOTE = ("trusted base: z3; symx.symnp (model of the numpy surface dsw uses, conformance-tested against real numpy; every reported counterexample is replayed on "
        "real numpy/dsw in /venv before it is printed); stubs and bounds as listed in the evidence file; nothing outside the bounds is claimed")
CHECKS = {
 "C01": ("model_checking", "bounded symbolic execution of real encode+decode over ALL arc subsets of the order-1/2 de Bruijn graph x all starts x all messages up to the stated length (x all permutation tables, x check lengths); z3 decides the round trip on every path; exhaustive within the bounds (open_prefixes = 0)"),
 "C03": ("model_checking", "real connect_coding_graph on a symbolic vertex mask (all masks at k=1; windows at k=2/3 in quick, all 65,536 masks at k=2 in thorough), thresholds 1..4, both mask dtypes, compared per path with an independent greatest-fixed-point + reachability oracle; exhaustive inside each window"),
 "C04": ("model_checking", "two solver-checked parts: every generated graph satisfies the well-formedness predicate WF(t) (mask windows), and on EVERY graph satisfying WF(t) the real encode terminates within L*|V| steps without dead end and emits a tight walk (all arc subsets, starts, messages symbolic)"),
 "C05": ("model_checking", "real encode compared character-by-character with an independent z3 reference coder over all graphs/starts/messages/tables within the bounds, and real decode of an arbitrary symbolic walk compared with the digit value; catches changes applied consistently to encoder and decoder"),
 "C06": ("model_checking", "real decode on arbitrary symbolic strings over a 7-symbol alphabet x all graphs x starts x optional symbolic check: returns <=> independent walk unfolding AND VT formula, otherwise exactly ValueError"),
 "C07": ("model_checking", "real set_vt vs an independent z3 formula for every strand up to n nucleotides and every check length; single-edit sensitivity by self-composition on the real code plus real decode rejection; formula-level lemma in QF_BV for longer strands"),
 "C11": ("model_checking", "real find_vertices with an uninterpreted user-defined filter (documented interface) for all 2^(4^k) filters at once, k <= 4/5, and real connect_valid_graph on symbolic mask windows vs the induced sub-graph"),
 "C12": ("model_checking", "real LocalBioFilter.valid on every string over {A,C,G,T,N} up to n characters for a grid of configurations (and symbolic motifs) vs an independent z3 predicate; spec-level lemmas for window conjunction and reverse complement"),
 "C13": ("model_checking", "real successor/predecessor/index<->k-mer arithmetic with a symbolic vertex index for each k up to 8/16, duality on two symbolic vertices, complete accessor vs successor formula, call-site taint on the generator"),
 "C15": ("model_checking", "real string big-number helpers on every canonical decimal string of up to D digits (all digits symbolic) and every single-digit operand: exact value and canonical form decided by z3 per path"),
 "C16": ("model_checking", "real bit/number/DNA conversions (string path with the real string arithmetic, and integer path) on all bit vectors / DNA strings / numbers within the bounds: values, round trips, agreement, padding"),
}

CHECKS.update({
 "C02": ("model_checking", "solver-checked lemmas (walk lemma on all arc subsets; one-step window lemma per k; constructor window-decidability with symbolic parameters) plus bounded end-to-end runs: real generator, then real encode on symbolic message/start/table, then the REAL LocalBioFilter.valid on every symbolic window and on the whole strand; an uninterpreted user-defined filter for the 'arbitrary predicate' clause; known finding C02-KF1 (run limit == window accepted)"),
 "C08": ("model_checking", "real repair_dna on edit(w) for an arbitrary symbolic walk w of concrete generated graphs, every interior position / edit kind / replacement nucleotide, with and without the check of w: w among the candidates whenever detected == edits (z3 disjunction), single edit detected <=> corrupted strand is not a walk; hard-bounded (concrete graphs, n <= 7/10)"),
 "C09": ("model_checking", "real repair_dna on arbitrary symbolic walks (returned unchanged, or [] when a symbolic check disagrees, zero detected errors) and on arbitrary symbolic strings (candidate list strictly increasing, every candidate reproduces the supplied check), over indel on/off and heap limits; hard-bounded (concrete graphs)"),
 "C10": ("model_checking", "real repair_dna on every A/C/G/T string of length n (symbolic) on concrete generated graphs under an access budget polynomial in n (the unwinding assertion: exceeding it = non-termination, replayed with a wall-clock limit), result shape, no exception; hard-bounded"),
 "C14": ("model_checking", "real conversion functions on arc subsets inside windows around concrete graphs (all 2^16 order-1 subsets in thorough): round trips, map/matrix content, vertex listing, leaf multisets to depth 3 from both representations, illegal-matrix rejection; the dict-shaped code yields one path per graph, the solver enumerates the window exhaustively"),
 "C17": ("other", "PARTIAL: one-step inductive invariant of the real power iteration from an arbitrary start vector on all order-1 graphs (estimate <= 4, i.e. <= 2 bits), arc-less graph = 0, exact log2 d on all d-regular order-1 graphs in deterministic mode, one random start per repeat, early-stop bug hunt with a Collatz-Wielandt certificate (known finding C17-KF1); the 1e-4 accuracy of the randomised mode is NOT decided (outside bounded symbolic execution)"),
 "C18": ("model_checking", "real create_random_shuffles with numpy.random stubbed by a nondeterministic permutation (symbolic seed): rows provably permutations, RNG call log exactly seed(s) / 4^k shuffles / seed(None) independent of seed value and verbose; digit->arc bijection by running the real encode twice on one path with a symbolic table over all live-arc patterns"),
 "C19": ("model_checking", "inductive step: real remove_nasty_arc from every consistent pre-state inside windows around generated graphs x all flag combinations, compared with an independent score table; exactly one existing arc of maximal score removed, both views equal afterwards; plus concrete 3-call sequences; induction over call sequences on paper"),
 "C20": ("model_checking", "call histories on shared, partly symbolic arguments vs the same calls on fresh arguments by freshly loaded modules: result terms provably equal, arguments provably unchanged, module state unchanged, equal seeds -> equal results, verbose=True (real Monitor) changes nothing"),
})
DESIGN = {k: "DESIGN.md section 3 / " + k for k in CHECKS}
NA = {}
for l in open(os.path.join(V, "properties.jsonl")):
    p = json.loads(l)
    if p["id"] not in CHECKS:
        NA[p["id"]] = "harness not built yet in this round (planned: see DESIGN.md section 3 / %s)" % p["id"]
NA.update(json.load(open(os.path.join(V, "tools", "not_applicable.json"))) if os.path.exists(os.path.join(V, "tools", "not_applicable.json")) else {})
m = {
 "version": 1,
 "setup_cmd": "python3-vt -m tools.selfcheck",
 "hooks": {"guard": "DNASPIDERWEB_VERIF", "enable": "no hooks: the checks load /repo/dsw/*.py from the working tree at every run and execute that source symbolically; nothing in /repo is instrumented", "baseline_off_cmd": "cd /repo && /venv/bin/python -m pytest -ra -q -p no:cacheprovider --timeout=900 --continue-on-collection-errors", "source_commits": [], "add_only": True},
 "engines": [{"name": "symx", "path": "symx/", "serves_properties": sorted(CHECKS), "kind_free_text": "own symbolic executor for the repository's Python source: decision-replay forking, z3 terms for ints/bools/strings/reals, a model of the numpy surface dsw uses (symx.symnp), independent z3 oracles (symx.oracles); counterexamples replayed on the real code by symx/replay_runner.py under /venv/bin/python"}],
 "checks": [{"property_id": pid, "quick_cmd": "python3-vt -m checks.%s quick" % pid.lower(), "thorough_cmd": "python3-vt -m checks.%s thorough" % pid.lower(),
             "evidence_file": "evidence/%s.json" % pid, "engine": "symx", "replay_cmd_template": "PYTHONPATH=/repo /venv/bin/python symx/replay_runner.py --file {path}",
             "level_claimed": {"category": lvl, "text": txt, "design_ref": DESIGN[pid]}, "level_note": NOTE, "technique": TECH} for pid, (lvl, txt) in sorted(CHECKS.items())],
 "not_applicable": [{"property_id": k, "reason": v} for k, v in sorted(NA.items()) if k not in CHECKS],
 "notes": "exit codes of every check: 0 held within the stated bounds, 1 VIOLATION (replayed on the real code), 2 inconclusive (solver unknown / time budget hit with open prefixes), 3 harness error (a counterexample did not replay, a canary was not detected).",
}
json.dump(m, open(os.path.join(V, "MANIFEST.json"), "w"), indent=1)
print("MANIFEST.json written:", len(m["checks"]), "checks,", len(m["not_applicable"]), "not applicable")
