#!/bin/bash
# usage: tools/run_seeded.sh [tier] [names...]  -- runs, for every seeded change, the check of the property it breaks; writes seeded/RESULTS.<tier>.txt
tier=${1:-quick}; shift
cd /verif
names=${@:-$(ls seeded | grep -E '^C[0-9]+-(m|r2m|r3|r4|r5)')}
for nm in $names; do
  pid=${nm%%-*}; mod=checks.$(echo $pid | tr A-Z a-z)
  start=$(date +%s)
  out=$(TAILN=4 tools/try_mutant.sh /verif/seeded/$nm/patch.diff $mod $tier 2>&1)
  rc=$(echo "$out" | grep -o 'rc=[0-9]*' | tail -1)
  viol=$(echo "$out" | grep -m1 'detail:' | cut -c1-220)
  echo "$nm $tier $rc $(($(date +%s)-start))s $viol" | tee -a seeded/RESULTS.$tier.txt
done
