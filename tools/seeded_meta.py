"""keeps the last line per seeded change in seeded/RESULTS.<tier>.txt and mirrors it into each meta.json (check_result_<tier>)"""
import json
import os
import sys

tier = sys.argv[1] if len(sys.argv) > 1 else "quick"
root = os.path.join(os.path.dirname(os.path.abspath(__file__)), "..", "seeded")
path = os.path.join(root, "RESULTS.%s.txt" % tier)
last = {}
for ln in open(path):
    ln = ln.rstrip("\n")
    if ln.strip():
        last[ln.split()[0]] = ln
with open(path, "w") as f:
    for nm in sorted(last):
        f.write(last[nm] + "\n")
for nm, ln in last.items():
    mp = os.path.join(root, nm, "meta.json")
    if not os.path.exists(mp):
        continue
    m = json.load(open(mp))
    parts = ln.split()
    m["check_result_" + tier] = {"check": "checks." + nm.split("-")[0].lower(), "tier": tier, "exit": parts[2], "line": ln[:400], "how": "tools/run_seeded.sh %s %s" % (tier, nm)}
    json.dump(m, open(mp, "w"), indent=1)
caught = sum(1 for ln in last.values() if ln.split()[2] == "rc=1")
print("%d seeded changes, %d caught (rc=1), others: %s" % (len(last), caught, [nm for nm, ln in last.items() if ln.split()[2] != "rc=1"]))
