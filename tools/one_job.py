"""debug helper: python3-vt -m tools.one_job checks.c14 quick 0 [max_paths]  -- explores a single job of a check in-process and prints its records"""
import json
import sys

from checks import common


def main():
    modname, tier, idx = sys.argv[1], sys.argv[2], int(sys.argv[3])
    max_paths = int(sys.argv[4]) if len(sys.argv) > 4 else 50
    mod = __import__(modname, fromlist=["x"])
    cfg = mod.jobs(tier)[idx]
    print("cfg:", json.dumps(cfg, default=str)[:300])
    r = common._worker((modname, cfg, None, max_paths, 600, None, 120000))
    if not r["ok"]:
        print(r["error"])
        return
    for rec in r["records"][:max_paths]:
        print(json.dumps(rec, default=str)[:600])
    print("left:", len(r["left"]), "wall %.1fs" % r["wall"], "delegated:", r["delegated"])


if __name__ == "__main__":
    main()
