#!/bin/bash
# usage: tools/try_patch_copy.sh <patch.diff> [tier] [ids...]  -- applies the patch to a scratch COPY of /repo (HEAD) and runs the given checks
# (default: all) against that copy via VERIF_REPO; /repo itself is not touched.  Evidence files are restored afterwards.
patch=$1; tier=${2:-quick}; shift; shift
d=$(mktemp -d /tmp/repo_try_XXXX)
git -C /repo archive HEAD | tar -x -C $d
( cd $d && git init -q . && git apply --unsafe-paths "$patch" ) || { echo "patch does not apply"; rm -rf $d; exit 9; }
cd /verif
bk=$(mktemp -d /tmp/ev_bk_XXXX); cp -r evidence $bk/
ids=${@:-$(python3 -c "import json;print(' '.join(c['property_id'] for c in json.load(open('MANIFEST.json'))['checks']))")}
for id in $ids; do
  mod=checks.$(echo $id | tr A-Z a-z)
  start=$(date +%s)
  out=$(VERIF_REPO=$d python3-vt -m $mod $tier 2>&1); rc=$?
  echo "$id rc=$rc $(($(date +%s)-start))s :: $(echo "$out" | head -1 | cut -c1-150)"
  if [ $rc -ne 0 ]; then echo "$out" | tail -4 | cut -c1-400; fi
done
rm -rf evidence && cp -r $bk/evidence evidence && rm -rf $bk $d
